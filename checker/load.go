package main

// E-IR: loads /repo's current working tree (three packages, non-test files,
// default build configuration) with go/packages, builds SSA with generics
// instantiated, and offers anchor lookups by role. Every lookup failure is
// recorded so that an unresolved anchor fails the check instead of passing.

import (
	"fmt"
	"go/token"
	"go/types"
	"os"
	"sort"
	"strings"

	"golang.org/x/tools/go/callgraph"
	"golang.org/x/tools/go/callgraph/cha"
	"golang.org/x/tools/go/callgraph/vta"
	"golang.org/x/tools/go/packages"
	"golang.org/x/tools/go/ssa"
	"golang.org/x/tools/go/ssa/ssautil"
)

const modPath = "github.com/philpearl/avro"

type Program struct {
	Repo    string
	Fset    *token.FileSet
	Pkgs    []*packages.Package // the three module packages
	AllPkgs map[string]*packages.Package
	Prog    *ssa.Program
	SSAPkgs map[string]*ssa.Package // by import path
	Avro    *ssa.Package
	Time    *ssa.Package
	Null    *ssa.Package
	Sizes   types.Sizes

	cgCHA *callgraph.Graph
	cgVTA *callgraph.Graph

	// Stats for evidence.
	NFuncs, NBlocks, NInstrs, NCalls int
}

func loadProgram(repo string) (*Program, error) {
	cfg := &packages.Config{
		Mode:  packages.LoadAllSyntax,
		Dir:   repo,
		Tests: false,
		Env:   append(os.Environ(), "GOWORK=off"),
	}
	pkgs, err := packages.Load(cfg, "./...")
	if err != nil {
		return nil, fmt.Errorf("packages.Load: %w", err)
	}
	if len(pkgs) == 0 {
		return nil, fmt.Errorf("no packages loaded from %s", repo)
	}
	nerr := 0
	packages.Visit(pkgs, nil, func(p *packages.Package) {
		for _, e := range p.Errors {
			if strings.HasPrefix(p.PkgPath, modPath) {
				fmt.Fprintf(os.Stderr, "load error in %s: %v\n", p.PkgPath, e)
				nerr++
			}
		}
	})
	if nerr > 0 {
		return nil, fmt.Errorf("%d type/load errors in module packages", nerr)
	}
	P := &Program{Repo: repo, AllPkgs: map[string]*packages.Package{}, SSAPkgs: map[string]*ssa.Package{}}
	packages.Visit(pkgs, nil, func(p *packages.Package) { P.AllPkgs[p.PkgPath] = p })
	for _, p := range pkgs {
		if strings.HasPrefix(p.PkgPath, modPath) {
			P.Pkgs = append(P.Pkgs, p)
		}
	}
	sort.Slice(P.Pkgs, func(i, j int) bool { return P.Pkgs[i].PkgPath < P.Pkgs[j].PkgPath })
	if len(P.Pkgs) < 3 {
		return nil, fmt.Errorf("expected at least 3 module packages, got %d", len(P.Pkgs))
	}
	P.Fset = pkgs[0].Fset
	prog, _ := ssautil.AllPackages(pkgs, ssa.InstantiateGenerics)
	prog.Build()
	P.Prog = prog
	for _, sp := range prog.AllPackages() {
		P.SSAPkgs[sp.Pkg.Path()] = sp
	}
	P.Avro = P.SSAPkgs[modPath]
	P.Time = P.SSAPkgs[modPath+"/time"]
	P.Null = P.SSAPkgs[modPath+"/null"]
	if P.Avro == nil || P.Time == nil || P.Null == nil {
		return nil, fmt.Errorf("module packages avro, avro/time, avro/null not all present")
	}
	P.Sizes = types.SizesFor("gc", "amd64")
	for _, fn := range P.ModuleFuncs() {
		P.NFuncs++
		for _, b := range fn.Blocks {
			P.NBlocks++
			for _, in := range b.Instrs {
				P.NInstrs++
				if _, ok := in.(ssa.CallInstruction); ok {
					P.NCalls++
				}
			}
		}
	}
	return P, nil
}

func (P *Program) isModulePkg(p *types.Package) bool {
	return p != nil && strings.HasPrefix(p.Path(), modPath)
}

func (P *Program) isModuleFunc(fn *ssa.Function) bool {
	if fn == nil {
		return false
	}
	if fn.Pkg != nil {
		return P.isModulePkg(fn.Pkg.Pkg)
	}
	if o := fn.Origin(); o != nil && o.Pkg != nil {
		return P.isModulePkg(o.Pkg.Pkg)
	}
	if fn.Parent() != nil {
		return P.isModuleFunc(fn.Parent())
	}
	if fn.Object() != nil && fn.Object().Pkg() != nil {
		return P.isModulePkg(fn.Object().Pkg())
	}
	return false
}

// ModuleFuncs returns every function with a body that belongs to the module:
// package-level functions, methods (including instantiations of generic
// methods reachable through the alias types), anonymous functions and the
// package initialisers. Deterministic order.
func (P *Program) ModuleFuncs() []*ssa.Function {
	seen := map[*ssa.Function]bool{}
	var out []*ssa.Function
	var add func(fn *ssa.Function)
	add = func(fn *ssa.Function) {
		if fn == nil || seen[fn] {
			return
		}
		seen[fn] = true
		if fn.Blocks != nil {
			out = append(out, fn)
		}
		for _, a := range fn.AnonFuncs {
			add(a)
		}
	}
	for fn := range ssautil.AllFunctions(P.Prog) {
		if P.isModuleFunc(fn) && fn.Synthetic == "" || P.isModuleFunc(fn) && strings.Contains(fn.Synthetic, "instance") || P.isModuleFunc(fn) && fn.Name() == "init" {
			add(fn)
		}
	}
	for _, sp := range []*ssa.Package{P.Avro, P.Time, P.Null} {
		for _, m := range sp.Members {
			switch m := m.(type) {
			case *ssa.Function:
				add(m)
			case *ssa.Type:
				if nt, ok := m.Type().(*types.Named); ok && nt.TypeParams().Len() > 0 {
					// generic type: analyse the generic bodies of its methods
					for i := 0; i < nt.NumMethods(); i++ {
						add(P.Prog.FuncValue(nt.Method(i)))
					}
					continue
				}
				for _, T := range []types.Type{m.Type(), types.NewPointer(m.Type())} {
					ms := P.Prog.MethodSets.MethodSet(T)
					for i := 0; i < ms.Len(); i++ {
						if f := P.Prog.MethodValue(ms.At(i)); f != nil && P.isModuleFunc(f) && f.Synthetic == "" {
							add(f)
						}
					}
				}
			}
		}
	}
	sort.Slice(out, func(i, j int) bool { return fnKey(out[i]) < fnKey(out[j]) })
	return out
}

// fnKey is the stable construct name of a function: package-qualified, with
// receiver, independent of file and line.
func fnKey(fn *ssa.Function) string {
	if fn == nil {
		return "<nil>"
	}
	s := fn.String()
	s = strings.ReplaceAll(s, modPath+"/", "")
	s = strings.ReplaceAll(s, modPath, "avro")
	return s
}

func (P *Program) pos(p token.Pos) string {
	if !p.IsValid() {
		return "-"
	}
	pp := P.Fset.Position(p)
	f := pp.Filename
	if strings.HasPrefix(f, P.Repo+"/") {
		f = f[len(P.Repo)+1:]
	}
	return fmt.Sprintf("%s:%d", f, pp.Line)
}

// Func returns the package-level function name in pkg, or nil.
func (P *Program) Func(pkg *ssa.Package, name string) *ssa.Function {
	if pkg == nil {
		return nil
	}
	return pkg.Func(name)
}

// NamedType returns the named type `name` in pkg (following aliases), or nil.
func (P *Program) NamedType(pkg *ssa.Package, name string) types.Type {
	if pkg == nil {
		return nil
	}
	o := pkg.Pkg.Scope().Lookup(name)
	if o == nil {
		return nil
	}
	tn, ok := o.(*types.TypeName)
	if !ok {
		return nil
	}
	return tn.Type()
}

// Method finds method `name` on T or *T and returns its SSA function (the
// declared one, not a wrapper, when it exists).
func (P *Program) Method(T types.Type, name string) *ssa.Function {
	if T == nil {
		return nil
	}
	T = types.Unalias(T)
	for _, rt := range []types.Type{T, types.NewPointer(T)} {
		ms := P.Prog.MethodSets.MethodSet(rt)
		for i := 0; i < ms.Len(); i++ {
			sel := ms.At(i)
			if sel.Obj().Name() != name {
				continue
			}
			// Prefer the declared method without wrapper when receiver
			// matches.
			fn := P.Prog.MethodValue(sel)
			if fn == nil {
				continue
			}
			if fn.Synthetic != "" && strings.HasPrefix(fn.Synthetic, "wrapper") {
				// Try to unwrap: the declared function on the
				// other receiver form.
				if f2 := P.Prog.FuncValue(sel.Obj().(*types.Func)); f2 != nil && f2.Blocks != nil {
					return f2
				}
				if len(sel.Index()) > 1 {
					// promoted through embedding: keep wrapper
					return fn
				}
				continue
			}
			return fn
		}
	}
	return nil
}

// CodecIface returns the avro.Codec interface type.
func (P *Program) CodecIface() *types.Interface {
	t := P.NamedType(P.Avro, "Codec")
	if t == nil {
		return nil
	}
	i, _ := t.Underlying().(*types.Interface)
	return i
}

// CodecType describes one concrete type implementing avro.Codec.
type CodecType struct {
	Name string     // e.g. "avro.arrayCodec", "avro.IntCodec[int32]", "time.DateCodec"
	T    types.Type // the named (instantiated) type
	Ptr  bool       // true if only *T implements Codec
	// Methods by name: Read, Skip, New, Omit, Write. Declared functions where
	// the type declares them; promoted wrappers otherwise.
	M map[string]*ssa.Function
	// Declared reports, per method, whether the method is declared on this
	// type (as opposed to promoted from an embedded codec).
	Declared map[string]bool
}

var codecMethodNames = []string{"Read", "Skip", "New", "Omit", "Write"}

// CodecTypes enumerates every concrete named type in the module (including
// the instantiations named by alias declarations) that implements avro.Codec.
func (P *Program) CodecTypes() []*CodecType {
	iface := P.CodecIface()
	if iface == nil {
		return nil
	}
	var out []*CodecType
	seen := map[string]bool{}
	consider := func(T types.Type) {
		T = types.Unalias(T)
		nt, ok := T.(*types.Named)
		if !ok {
			return
		}
		if _, isIface := nt.Underlying().(*types.Interface); isIface {
			return
		}
		if nt.TypeParams().Len() > 0 && nt.TypeArgs().Len() == 0 {
			return // uninstantiated generic
		}
		ptr := false
		if !types.Implements(nt, iface) {
			if !types.Implements(types.NewPointer(nt), iface) {
				return
			}
			ptr = true
		}
		name := typeKey(nt)
		if seen[name] {
			return
		}
		seen[name] = true
		ct := &CodecType{Name: name, T: nt, Ptr: ptr, M: map[string]*ssa.Function{}, Declared: map[string]bool{}}
		for _, mn := range codecMethodNames {
			var recv types.Type = nt
			if ptr {
				recv = types.NewPointer(nt)
			}
			sel := P.Prog.MethodSets.MethodSet(recv).Lookup(nt.Obj().Pkg(), mn)
			if sel == nil {
				continue
			}
			fn := P.Prog.MethodValue(sel)
			decl := len(sel.Index()) == 1
			if decl && fn != nil && strings.HasPrefix(fn.Synthetic, "wrapper") {
				// (*T).M wrapper for a value-receiver method: use T.M.
				sel2 := P.Prog.MethodSets.MethodSet(nt).Lookup(nt.Obj().Pkg(), mn)
				if sel2 != nil {
					if f2 := P.Prog.MethodValue(sel2); f2 != nil {
						fn = f2
					}
				}
			}
			ct.M[mn] = fn
			ct.Declared[mn] = decl
		}
		out = append(out, ct)
	}
	for _, sp := range []*ssa.Package{P.Avro, P.Time, P.Null} {
		sc := sp.Pkg.Scope()
		for _, n := range sc.Names() {
			if tn, ok := sc.Lookup(n).(*types.TypeName); ok {
				consider(tn.Type())
			}
		}
	}
	sort.Slice(out, func(i, j int) bool { return out[i].Name < out[j].Name })
	return out
}

func typeKey(T types.Type) string {
	T = unaliasDeep(T)
	s := types.TypeString(T, func(p *types.Package) string {
		if p.Path() == modPath {
			return "avro"
		}
		if strings.HasPrefix(p.Path(), modPath+"/") {
			return p.Path()[len(modPath)+1:]
		}
		return p.Path()
	})
	return s
}

func (P *Program) CHA() *callgraph.Graph {
	if P.cgCHA == nil {
		P.cgCHA = cha.CallGraph(P.Prog)
	}
	return P.cgCHA
}

func (P *Program) VTA() *callgraph.Graph {
	if P.cgVTA == nil {
		P.cgVTA = vta.CallGraph(ssautil.AllFunctions(P.Prog), P.CHA())
	}
	return P.cgVTA
}

// Reachable returns the set of module functions reachable in g from roots
// (following only edges into module functions and anonymous functions).
func (P *Program) Reachable(g *callgraph.Graph, roots []*ssa.Function) map[*ssa.Function]bool {
	seen := map[*ssa.Function]bool{}
	var stack []*ssa.Function
	for _, r := range roots {
		if r != nil && !seen[r] {
			seen[r] = true
			stack = append(stack, r)
		}
	}
	for len(stack) > 0 {
		fn := stack[len(stack)-1]
		stack = stack[:len(stack)-1]
		n := g.Nodes[fn]
		if n == nil {
			continue
		}
		for _, e := range n.Out {
			c := e.Callee.Func
			if c == nil || seen[c] || !P.isModuleFunc(c) {
				continue
			}
			seen[c] = true
			stack = append(stack, c)
		}
		for _, a := range fn.AnonFuncs {
			if !seen[a] {
				seen[a] = true
				stack = append(stack, a)
			}
		}
	}
	return seen
}

// unaliasDeep resolves aliases at the top level and under one pointer, so
// that Int64Codec and IntCodec[int64] print alike.
func unaliasDeep(T types.Type) types.Type {
	T = types.Unalias(T)
	if p, ok := T.(*types.Pointer); ok {
		return types.NewPointer(types.Unalias(p.Elem()))
	}
	return T
}

// isModuleType: a named type declared in one of the module's packages.
func (P *Program) isModuleType(t types.Type) bool {
	n, ok := types.Unalias(t).(*types.Named)
	return ok && n.Obj() != nil && P.isModulePkg(n.Obj().Pkg())
}
