package main

// E-TL: tainted lengths, minimum-length indexing, nil beliefs, explicit
// panics (C06): TL-LOW, TL-UP, TL-BOUND, TL-OVF, TL-IDX, NIL-OBJ, PANIC-REACH.

import (
	"fmt"
	"go/constant"
	"go/token"
	"go/types"
	"sort"
	"strings"

	"golang.org/x/tools/go/ssa"
)

type tlEnv struct {
	P       *Program
	tainted map[ssa.Value]bool
	// call sites handing a tainted value to a module function's parameter
	sites map[*ssa.Parameter][]tlSite
	// functions used as values (no reliable call-site summary)
	asValue map[*ssa.Function]bool
	// validated consumers: module functions that validate their length
	// parameter themselves (lower and input-bounded upper) before any use
	validated map[*ssa.Function]int // function -> index of the validated parameter
}

type tlSite struct {
	Call ssa.CallInstruction
	Arg  ssa.Value
}

func isTaintSource(v ssa.Value) bool {
	ex, ok := v.(*ssa.Extract)
	if !ok || ex.Index != 0 {
		return false
	}
	call, ok := ex.Tuple.(*ssa.Call)
	if !ok || call.Call.StaticCallee() == nil {
		return false
	}
	q := qualName(call.Call.StaticCallee())
	return q == "encoding/binary.ReadVarint" || qualNameShort(call.Call.StaticCallee()) == "(*ReadBuf).Varint"
}

func newTL(P *Program) *tlEnv {
	e := &tlEnv{P: P, tainted: map[ssa.Value]bool{}, sites: map[*ssa.Parameter][]tlSite{}, asValue: map[*ssa.Function]bool{}, validated: map[*ssa.Function]int{}}
	var work []ssa.Value
	mark := func(v ssa.Value) {
		if !e.tainted[v] {
			e.tainted[v] = true
			work = append(work, v)
		}
	}
	for _, fn := range P.ModuleFuncs() {
		for _, b := range fn.Blocks {
			for _, in := range b.Instrs {
				if v, ok := in.(ssa.Value); ok && isTaintSource(v) {
					mark(v)
				}
				for _, op := range in.Operands(nil) {
					if f, ok := (*op).(*ssa.Function); ok {
						if ci, isCall := in.(ssa.CallInstruction); !isCall || ci.Common().Value != ssa.Value(f) {
							e.asValue[f] = true
						}
					}
				}
			}
		}
	}
	for len(work) > 0 {
		v := work[len(work)-1]
		work = work[:len(work)-1]
		for _, r := range referrersOf(v) {
			switch x := r.(type) {
			case *ssa.Convert:
				if isBasic(x.Type()) {
					mark(x)
				}
			case *ssa.UnOp:
				if x.Op == token.SUB {
					mark(x)
				}
			case *ssa.BinOp:
				switch x.Op {
				case token.ADD, token.SUB, token.MUL:
					mark(x)
				}
			case *ssa.Phi:
				mark(x)
			case *ssa.Store:
				// a tainted value stored into a field of a local struct: loads of that field are tainted
				if x.Val != v {
					continue
				}
				if fa, ok := x.Addr.(*ssa.FieldAddr); ok {
					if al, ok := fa.X.(*ssa.Alloc); ok {
						var taintField func(al *ssa.Alloc, field int, d int)
						taintField = func(al *ssa.Alloc, field int, d int) {
							if d > 4 {
								return
							}
							for _, r2 := range referrersOf(al) {
								switch y := r2.(type) {
								case *ssa.FieldAddr:
									if y.Field != field {
										continue
									}
									for _, r3 := range referrersOf(y) {
										if ld, ok := r3.(*ssa.UnOp); ok && ld.Op == token.MUL {
											mark(ld)
										}
									}
								case *ssa.UnOp:
									if y.Op != token.MUL {
										continue
									}
									// the whole struct loaded: a field extracted, or copied into another local
									for _, r3 := range referrersOf(y) {
										switch z := r3.(type) {
										case *ssa.Field:
											if z.Field == field {
												mark(z)
											}
										case *ssa.Store:
											if z.Val == ssa.Value(y) {
												if al2, ok := z.Addr.(*ssa.Alloc); ok {
													taintField(al2, field, d+1)
												}
											}
										}
									}
								}
							}
						}
						taintField(al, fa.Field, 0)
					}
				}
			case ssa.CallInstruction:
				cc := x.Common()
				callee := cc.StaticCallee()
				if callee == nil || !P.isModuleFunc(callee) || callee.Blocks == nil {
					continue
				}
				for i, a := range cc.Args {
					if a == v && i < len(callee.Params) {
						p := callee.Params[i]
						e.sites[p] = append(e.sites[p], tlSite{x, a})
						mark(p)
					}
				}
			}
		}
	}
	return e
}

// roots returns the tainted base values an expression is computed from:
// sources, parameters and phis (the values guards are written about).
func (e *tlEnv) roots(v ssa.Value) []ssa.Value {
	seen := map[ssa.Value]bool{}
	var out []ssa.Value
	var walk func(x ssa.Value, d int)
	walk = func(x ssa.Value, d int) {
		if x == nil || seen[x] || d > 12 {
			return
		}
		seen[x] = true
		if !e.tainted[x] {
			return
		}
		switch y := x.(type) {
		case *ssa.Convert:
			walk(y.X, d+1)
		case *ssa.UnOp:
			if y.Op == token.MUL {
				if st := reachingStore(y); st != nil {
					walk(st.Val, d+1)
					return
				}
				if v2 := fieldThroughStructCopy(y); v2 != nil {
					walk(v2, d+1)
					return
				}
				out = append(out, x)
				return
			}
			walk(y.X, d+1)
		case *ssa.BinOp:
			walk(y.X, d+1)
			walk(y.Y, d+1)
		default:
			out = append(out, x)
		}
	}
	walk(v, 0)
	return out
}

// guardFacts summarises what is known about root r at block b.
type guardFacts struct {
	Low     bool        // r >= 0
	Uppers  []ssa.Value // r <= E (or <) for these E
	Bounded bool        // some upper E is bounded by the input's size
	Why     []string
}

func containsLenOf(v ssa.Value, tainted map[ssa.Value]bool, d int) bool {
	if d > 8 || v == nil {
		return false
	}
	if tainted[v] {
		return false
	}
	switch x := v.(type) {
	case *ssa.Call:
		if bi, ok := x.Call.Value.(*ssa.Builtin); ok && (bi.Name() == "len" || bi.Name() == "cap") {
			return true
		}
		if sc := x.Call.StaticCallee(); sc != nil && qualNameShort(sc) == "(*ReadBuf).Len" {
			return true
		}
	case *ssa.BinOp:
		switch x.Op {
		case token.SUB:
			return containsLenOf(x.X, tainted, d+1)
		case token.ADD:
			return containsLenOf(x.X, tainted, d+1) && containsLenOf(x.Y, tainted, d+1)
		}
		return false
	case *ssa.Convert:
		return containsLenOf(x.X, tainted, d+1)
	case *ssa.Const:
		// a modest constant is a bound; MaxInt is not
		k, ok := constInt(x)
		return ok && k >= 0 && k <= 1<<24
	}
	return false
}

func (e *tlEnv) factsAbout(r ssa.Value, b *ssa.BasicBlock, depth int) guardFacts {
	var g guardFacts
	for _, cmp := range cmpFactsAt(b) {
		x, y, op := cmp.X, cmp.Y, cmp.Op
		if stripConv(y) == r && stripConv(x) != r {
			x, y, op = y, x, swapOp(op)
		}
		if stripConv(x) != r {
			continue
		}
		if k, ok := (Folder{e.P}).FoldInt(y); ok {
			switch {
			case op == token.GEQ && k >= 0, op == token.GTR && k >= -1, op == token.EQL && k >= 0:
				g.Low = true
				g.Why = append(g.Why, fmt.Sprintf("%s %d", op, k))
			}
		}
		// an unsigned comparison of the (signed) value with a length or a constant below 2^63: a negative
		// value converts to at least 2^63 and cannot pass, so the one test bounds it on both sides
		if cv, isConv := x.(*ssa.Convert); isConv && (op == token.LSS || op == token.LEQ) {
			if tb, ok := cv.Type().Underlying().(*types.Basic); ok && tb.Info()&types.IsUnsigned != 0 {
				if fb, ok := cv.X.Type().Underlying().(*types.Basic); ok && fb.Info()&types.IsInteger != 0 && fb.Info()&types.IsUnsigned == 0 && e.P.Sizes.Sizeof(tb) >= e.P.Sizes.Sizeof(fb) {
					small := lenArgOf(y) != nil
					if k, isK := (Folder{e.P}).FoldInt(y); isK && k >= 0 {
						small = true
					}
					if small {
						g.Low = true
						g.Why = append(g.Why, "unsigned "+op.String()+" a length")
					}
				}
			}
		}
		switch op {
		case token.LEQ, token.LSS, token.EQL:
			if !e.tainted[y] {
				g.Uppers = append(g.Uppers, y)
				if containsLenOf(y, e.tainted, 0) {
					g.Bounded = true
				}
				g.Why = append(g.Why, fmt.Sprintf("%s %s", op, accessPath(y)))
			}
		}
	}
	// success edge of a validating consumer called with r
	fn := b.Parent()
	for _, cs := range callsIn(fn) {
		if cs.Static == nil || cs.Value() == nil {
			continue
		}
		idx, ok := e.validated[cs.Static]
		if !ok || idx >= len(cs.Common.Args) || stripConv(cs.Common.Args[idx]) != r {
			continue
		}
		if ev := errValueOfCall(cs.Value()); ev != nil {
			if _, isNil := knownNonNil(b, ev); isNil && cs.Block.Dominates(b) {
				g.Low, g.Bounded = true, true
				g.Uppers = append(g.Uppers, cs.Value())
				g.Why = append(g.Why, "success edge of "+qualNameShort(cs.Static))
			}
		} else if ov := okValueOfCall(cs.Value()); ov != nil && cs.Block.Dominates(b) && knownTrue(b, ov) {
			g.Low, g.Bounded = true, true
			g.Uppers = append(g.Uppers, cs.Value())
			g.Why = append(g.Why, "ok edge of "+qualNameShort(cs.Static))
		}
	}
	// parameter of an unexported function: facts that hold at every call site
	if p, isParam := r.(*ssa.Parameter); isParam && depth < 2 {
		f := p.Parent()
		exported := f.Object() != nil && f.Object().Exported()
		if !exported && !e.asValue[f] && len(e.sites[p]) > 0 {
			allLow, allUp, allBounded := true, true, true
			for _, s := range e.sites[p] {
				low, up, bd := false, false, false
				for _, rr := range e.roots(s.Arg) {
					sg := e.factsAbout(rr, s.Call.Block(), depth+1)
					low = low || sg.Low
					up = up || len(sg.Uppers) > 0
					bd = bd || sg.Bounded
				}
				allLow, allUp, allBounded = allLow && low, allUp && up, allBounded && bd
			}
			// all call sites must be accounted for (also untainted ones are fine: constants)
			if allLow {
				g.Low = true
				g.Why = append(g.Why, "non-negative at every call site")
			}
			if allUp {
				g.Uppers = append(g.Uppers, p)
				g.Why = append(g.Why, "upper-bounded at every call site")
			}
			if allBounded {
				g.Bounded = true
			}
		}
	}
	return g
}

type tlSink struct {
	Fn    *ssa.Function
	Instr ssa.Instruction
	Kind  string // alloc | slice | index
	Expr  ssa.Value
	Of    ssa.Value // the sliced/indexed value
	Key   string
}

func (e *tlEnv) sinks() []tlSink {
	var out []tlSink
	for _, fn := range e.P.ModuleFuncs() {
		n := map[string]int{}
		add := func(in ssa.Instruction, kind string, expr, of ssa.Value) {
			if expr == nil || !e.tainted[expr] {
				return
			}
			n[kind]++
			out = append(out, tlSink{fn, in, kind, expr, of, fmt.Sprintf("%s/%s#%d", fnKey(fn), kind, n[kind])})
		}
		for _, b := range fn.Blocks {
			for _, in := range b.Instrs {
				switch x := in.(type) {
				case *ssa.MakeSlice:
					add(in, "alloc", x.Len, nil)
					if x.Cap != x.Len {
						add(in, "alloc", x.Cap, nil)
					}
				case *ssa.Slice:
					add(in, "slice", x.Low, x.X)
					add(in, "slice", x.High, x.X)
					add(in, "slice", x.Max, x.X)
				case *ssa.IndexAddr:
					add(in, "index", x.Index, x.X)
				case *ssa.Index:
					add(in, "index", x.Index, x.X)
				case *ssa.Call:
					if sc := x.Call.StaticCallee(); sc != nil && sc.Name() == "unsafe_NewArray" && isLinknameStub(sc) {
						add(in, "alloc", x.Call.Args[1], nil)
					}
					// allocations sized through reflect or the standard library's growers
					if sc := x.Call.StaticCallee(); sc != nil {
						switch qualName(sc) {
						case "reflect.MakeMapWithSize", "reflect.MakeChan":
							add(in, "alloc", x.Call.Args[1], nil)
						case "reflect.MakeSlice":
							add(in, "alloc", x.Call.Args[1], nil)
							add(in, "alloc", x.Call.Args[2], nil)
						case "(*bytes.Buffer).Grow", "(*strings.Builder).Grow", "slices.Grow":
							add(in, "alloc", x.Call.Args[len(x.Call.Args)-1], nil)
						}
					}
				}
			}
		}
	}
	return out
}

// validateConsumers finds the module functions that validate a length
// parameter: on every return that can be a success (error nil, or the final
// bool result true) the parameter is known to be non-negative and bounded by
// the length of something present — by the function's own tests, by the
// success edge of another validating function it hands the parameter to, or
// because the return just passes on that function's verdict. Callers may
// then rely on the success edge. Computed to a fixpoint.
func (e *tlEnv) validateConsumers(sinks []tlSink) {
	for iter := 0; iter < 5; iter++ {
		changed := false
		for _, fn := range e.P.ModuleFuncs() {
			if _, done := e.validated[fn]; done || fn.Blocks == nil {
				continue
			}
			ei, bi := errorResultIndex(fn.Signature), okResultIndex(fn.Signature)
			if ei < 0 && bi < 0 {
				continue
			}
			for i, p := range fn.Params {
				if b, ok := p.Type().Underlying().(*types.Basic); !ok || b.Info()&types.IsInteger == 0 {
					continue
				}
				if e.validatesParam(fn, p, ei, bi) {
					e.validated[fn] = i
					changed = true
					break
				}
			}
		}
		if !changed {
			break
		}
	}
}

func okResultIndex(sig *types.Signature) int {
	res := sig.Results()
	if res.Len() == 0 {
		return -1
	}
	if b, ok := res.At(res.Len() - 1).Type().Underlying().(*types.Basic); ok && b.Kind() == types.Bool {
		return res.Len() - 1
	}
	return -1
}

// okValueOfCall: the final bool result of a call, if it has one.
func okValueOfCall(c *ssa.Call) ssa.Value {
	sig := c.Call.Signature()
	idx := okResultIndex(sig)
	if idx < 0 {
		return nil
	}
	if sig.Results().Len() == 1 {
		return c
	}
	if e := extractOf(c, idx); e != nil {
		return e
	}
	return nil
}

// knownTrue: block b is reached only where v is true.
func knownTrue(b *ssa.BasicBlock, v ssa.Value) bool {
	for _, f := range factsAt(b) {
		cond, truth := f.Cond, f.Truth
		for {
			if u, ok := cond.(*ssa.UnOp); ok && u.Op == token.NOT {
				cond, truth = u.X, !truth
				continue
			}
			break
		}
		if cond == v && truth {
			return true
		}
	}
	return false
}

func (e *tlEnv) validatesParam(fn *ssa.Function, p *ssa.Parameter, ei, bi int) bool {
	n := 0
	for _, b := range fn.Blocks {
		if b == fn.Recover {
			continue
		}
		ret, ok := b.Instrs[len(b.Instrs)-1].(*ssa.Return)
		if !ok {
			continue
		}
		rs := resolvedResults(ret)
		if ei >= 0 {
			ev := rs[ei]
			if isFreshError(ev) {
				continue // a failure
			}
			if nn, _ := knownNonNil(b, ev); nn {
				continue
			}
		} else {
			if k, isK := rs[bi].(*ssa.Const); isK && k.Value != nil && k.Value.Kind() == constant.Bool && !constant.BoolVal(k.Value) {
				continue
			}
		}
		// passes on the verdict of a validating function given the same parameter
		passed := false
		for _, cs := range callsIn(fn) {
			if cs.Static == nil || cs.Value() == nil || !dominatesInstr(cs.Instr, ret) {
				continue
			}
			idx, isV := e.validated[cs.Static]
			if !isV || idx >= len(cs.Common.Args) || stripConv(cs.Common.Args[idx]) != ssa.Value(p) {
				continue
			}
			if ei >= 0 && rs[ei] == errValueOfCall(cs.Value()) && rs[ei] != nil {
				passed = true
			}
			if ei < 0 && rs[bi] == okValueOfCall(cs.Value()) && rs[bi] != nil {
				passed = true
			}
		}
		if passed {
			n++
			continue
		}
		g := e.factsAbout(p, b, 9) // no call-site summary here
		if !g.Low || !g.Bounded {
			return false
		}
		n++
	}
	return n > 0
}

func ruleTL(c *Ctx) {
	P := c.P
	e := newTL(P)
	sinks := e.sinks()
	e.validateConsumers(sinks)
	c.Rule("TL-LOW", "a length, count or index decoded from the input reaches an allocation, slice bound or index only where it is known to be non-negative", 5)
	c.Rule("TL-BOUND", "a decoded value used as a slice bound or index is known not to exceed the length or capacity of what it slices", 3)
	c.Rule("TL-UP", "a decoded length reaches an allocation only where it is bounded by the size of the input actually present", 2)
	c.Rule("TL-OVF", "a guard that adds to a decoded length is preceded by an upper bound on that length, so the sum cannot wrap", 0)
	var vnames []string
	for f := range e.validated {
		vnames = append(vnames, qualNameShort(f))
	}
	sort.Strings(vnames)
	c.Note("validated length consumers (their success edge bounds the argument): %v", vnames)
	upSeen := map[string]bool{}
	upOrigin := map[string]string{}
	for _, s := range sinks {
		pos := P.pos(s.Instr.Pos())
		roots := e.roots(s.Expr)
		low, bounded, upper := true, true, true
		var whyLow, whyUp []string
		for _, r := range roots {
			g := e.factsAbout(r, s.Instr.Block(), 0)
			if !g.Low {
				low = false
				whyLow = append(whyLow, rootName(r))
			}
			if len(g.Uppers) == 0 {
				upper = false
				whyUp = append(whyUp, rootName(r))
			}
			if !g.Bounded {
				bounded = false
			}
		}
		c.Rule("TL-LOW", "", 0)
		c.Check(low, s.Key, pos, "non-negative on every path to this "+s.Kind, fmt.Sprintf("%s decoded from the input reaches this %s without a dominating check that it is non-negative: a negative value panics (or moves the cursor backwards)", strings.Join(whyLow, ", "), s.Kind))
		switch s.Kind {
		case "alloc":
			c.Rule("TL-UP", "", 0)
			// the finding is "this declared length sizes an allocation": it is named after the function that decodes
			// the length (where the taint starts), so that moving the allocation into a helper does not make it a
			// different one; when the length has several origins the allocation site names it
			upKey := s.Key
			if org := e.originFns(s.Expr, 0); len(org) == 1 {
				upKey = org[0] + "/declared-length->alloc"
			}
			// the container reader's block length is known by its place in the reader's traces, whichever
			// helper decodes it
			if v := rfTraceVerdict(P); v.ok && len(v.lengthCalls) > 0 {
				if calls := e.originCalls(s.Expr); len(calls) > 0 {
					all := true
					for _, cl := range calls {
						if !v.lengthCalls[cl] {
							all = false
						}
					}
					if all {
						upKey = "avro.ReadFile/declared-length->alloc"
					}
				}
			}
			// likewise a length decoded by the header reader or a helper only it calls: the header's metadata
			// strings, whatever those functions are called
			if an := rfAnchors(P); an.headerFn != nil {
				if calls := e.originCalls(s.Expr); len(calls) > 0 {
					all := true
					for _, cl := range calls {
						f := cl.Parent()
						if f != an.headerFn && !reachedOnlyFrom(P, f, an.headerFn, 0) {
							all = false
						}
					}
					if all {
						upKey = "container-header/declared-length->alloc"
					}
				}
			}
			// a role names one origin: a second, different origin in the same role is a finding of its own
			if strings.HasPrefix(upKey, "container-header/") || upKey == "avro.ReadFile/declared-length->alloc" {
				var sig []string
				for _, cl := range e.originCalls(s.Expr) {
					sig = append(sig, P.pos(cl.Pos()))
				}
				sort.Strings(sig)
				sg := strings.Join(sig, ",")
				for n := 2; upOrigin[upKey] != "" && upOrigin[upKey] != sg; n++ {
					upKey = fmt.Sprintf("%s#%d", strings.SplitN(upKey, "#", 2)[0], n)
				}
				upOrigin[upKey] = sg
			}
			if upSeen[upKey] {
				if !bounded {
					continue // the same origin reaches a second allocation: one finding
				}
			}
			upSeen[upKey] = true
			c.Check(bounded, upKey, pos, "bounded by the input present", "the size of this allocation is a length declared by the input with no bound tied to the bytes actually present: a few bytes of input can demand gigabytes")
		default:
			c.Rule("TL-BOUND", "", 0)
			c.Check(upper, s.Key, pos, "an upper comparison dominates the use", fmt.Sprintf("%s decoded from the input is used as a %s bound with no dominating upper comparison: out-of-range values panic", strings.Join(whyUp, ", "), s.Kind))
		}
	}
	// TL-CUR: the read cursor
	c.Rule("TL-CUR", "the read cursor only ever moves forward and never past the end of the buffer: every assignment to it is a reset to zero, or an increment by one where it is known to be below the length, or an increment by an amount known to be non-negative and no more than what is left", 3)
	if rbT := P.NamedType(P.Avro, "ReadBuf"); c.Anchor(rbT != nil, "avro.ReadBuf") {
		cur := uniqueFieldWhere(rbT, func(t types.Type) bool { return isBasicKind(t, types.Int) })
		bufF := uniqueFieldWhere(rbT, func(t types.Type) bool {
			sl, ok := t.Underlying().(*types.Slice)
			return ok && isBasicKind(sl.Elem(), types.Byte)
		})
		if c.Anchor(cur != "" && bufF != "", "ReadBuf's cursor (its int field) and buffer (its []byte field)") {
			isCurAddr := func(v ssa.Value) bool {
				fa, ok := v.(*ssa.FieldAddr)
				return ok && typeKey(fa.X.Type()) == "*avro.ReadBuf" && fieldName(fa.X.Type(), fa.Field) == cur
			}
			for _, fn := range P.ModuleFuncs() {
				n := 0
				for _, b := range fn.Blocks {
					for _, in := range b.Instrs {
						st, ok := in.(*ssa.Store)
						if !ok || !isCurAddr(st.Addr) {
							continue
						}
						n++
						key := fmt.Sprintf("%s/cursor-store#%d", fnKey(fn), n)
						pos := P.pos(st.Pos())
						if z, isK := constInt(st.Val); isK {
							c.Check(z == 0, key, pos, "reset to zero", "the cursor is set to a non-zero constant")
							continue
						}
						if _, fresh := st.Addr.(*ssa.FieldAddr).X.(*ssa.Alloc); fresh {
							c.OKTrivial(key, pos, "initialising a new buffer")
							continue
						}
						bo, isBo := st.Val.(*ssa.BinOp)
						if !isBo || bo.Op != token.ADD {
							c.Bad(key, pos, "the cursor is assigned something other than itself plus an amount: it can move backwards or past the end")
							continue
						}
						curPath := accessPath(st.Addr)
						isCurLoad := func(v ssa.Value) bool {
							ld, ok := v.(*ssa.UnOp)
							return ok && ld.Op == token.MUL && accessPath(ld.X) == curPath
						}
						var delta ssa.Value
						switch {
						case isCurLoad(bo.X):
							delta = bo.Y
						case isCurLoad(bo.Y):
							delta = bo.X
						default:
							c.Bad(key, pos, "the cursor is assigned a sum that does not include its own value")
							continue
						}
						if k, isK := constInt(delta); isK {
							// i += 1 needs i < len(buf)
							okOne := false
							isLenBuf := func(v ssa.Value) bool {
								lc, isC := v.(*ssa.Call)
								return isC && isBuiltinCall(lc, "len") && strings.HasSuffix(accessPath(lc.Call.Args[0]), "->"+bufF+")")
							}
							// left: len(buf) - cursor, written out or through a module method that returns exactly that
							var isLeft func(v ssa.Value, d int) bool
							isLeft = func(v ssa.Value, d int) bool {
								if bo, ok := v.(*ssa.BinOp); ok && bo.Op == token.SUB && isLenBuf(bo.X) {
									ld, ok := bo.Y.(*ssa.UnOp)
									return ok && ld.Op == token.MUL && strings.HasSuffix(accessPath(ld.X), "->"+cur)
								}
								if call, ok := v.(*ssa.Call); ok && d < 2 {
									h := call.Call.StaticCallee()
									if h != nil && P.isModuleFunc(h) && len(h.Blocks) == 1 && h.Signature.Recv() != nil && typeKey(h.Signature.Recv().Type()) == "*avro.ReadBuf" && len(call.Call.Args) == 1 && accessPath(call.Call.Args[0]) == accessPath(st.Addr.(*ssa.FieldAddr).X) {
										rs := returnsOf(h)
										return len(rs) == 1 && isLeft(resolvedResults(rs[0])[0], d+1)
									}
								}
								return false
							}
							for _, cmp := range cmpFactsAt(b) {
								if cmp.Op == token.LSS && isCurLoad(cmp.X) && isLenBuf(cmp.Y) {
									okOne = true
								}
								// bytes left > 0  /  bytes left >= 1
								if z, isK := constInt(cmp.Y); isK && isLeft(cmp.X, 0) && (cmp.Op == token.GTR && z == 0 || cmp.Op == token.GEQ && z == 1) {
									okOne = true
								}
							}
							c.Check(k == 1 && okOne, key, pos, "incremented by one where it is known to be below len(buf)", fmt.Sprintf("the cursor is advanced by the constant %d without a dominating test that it stays within the buffer", k))
							continue
						}
						// the unread bytes taken as a slice from the cursor: their number, or the position reached while
						// ranging over them plus one, is non-negative and no more than what is left
						isRest := func(v ssa.Value) bool {
							sl, ok := stripChange(v).(*ssa.Slice)
							if !ok || sl.High != nil || sl.Low == nil {
								return false
							}
							ld, ok := sl.Low.(*ssa.UnOp)
							if !ok || ld.Op != token.MUL || !strings.HasSuffix(accessPath(ld.X), "->"+cur) {
								return false
							}
							return strings.HasSuffix(accessPath(sl.X), "->"+bufF+")")
						}
						if lc, isC := delta.(*ssa.Call); isC && isBuiltinCall(lc, "len") && isRest(lc.Call.Args[0]) {
							c.OK(key, pos, "advanced by the number of unread bytes, taken as len(buf[cursor:])")
							continue
						}
						if bo2, isB2 := delta.(*ssa.BinOp); isB2 && bo2.Op == token.ADD {
							if one, isK := constInt(bo2.Y); isK && one == 1 {
								// i+1 where 0 <= i < len(rest) holds here: i is the index of a range over rest
								okIdx := false
								for _, cmp := range cmpFactsAt(b) {
									if cmp.Op == token.LSS && cmp.X == bo2.X {
										if lc, isC := cmp.Y.(*ssa.Call); isC && isBuiltinCall(lc, "len") && isRest(lc.Call.Args[0]) {
											okIdx = true
										}
									}
								}
								if phi, isPhi := bo2.X.(*ssa.BinOp); okIdx && isPhi {
									_ = phi
								}
								if okIdx && isRangeIndex(bo2.X) {
									c.OK(key, pos, "advanced by the index reached in a range over buf[cursor:] plus one: at least 1, at most the bytes left")
									continue
								}
							}
						}
						low, bounded := true, true
						var who []string
						rs := e.roots(delta)
						if len(rs) == 0 {
							rs = []ssa.Value{stripConv(delta)}
						}
						for _, r := range rs {
							g := e.factsAbout(r, b, 0)
							if !g.Low {
								low = false
								who = append(who, rootName(r))
							}
							if !g.Bounded {
								bounded = false
							}
						}
						switch {
						case !low:
							c.Bad(key, pos, fmt.Sprintf("the cursor is advanced by %s, which is not known to be non-negative here: a negative length decoded from the input moves the cursor backwards (re-reading or indexing below zero, or looping forever)", strings.Join(who, ", ")))
						case !bounded:
							c.Bad(key, pos, "the cursor is advanced by an amount with no dominating bound tied to the bytes left: it can move past the end of the buffer")
						default:
							c.OK(key, pos, "advanced by an amount known to be within [0, bytes left]")
						}
					}
				}
			}
		}
	}
	// TL-OVF: comparisons over a sum/product involving a tainted root that has no upper bound yet
	c.Rule("TL-OVF", "", 0)
	for _, fn := range P.ModuleFuncs() {
		n := 0
		for _, b := range fn.Blocks {
			for _, in := range b.Instrs {
				bo, ok := in.(*ssa.BinOp)
				if !ok {
					continue
				}
				switch bo.Op {
				case token.LSS, token.LEQ, token.GTR, token.GEQ:
				default:
					continue
				}
				for _, side := range []ssa.Value{bo.X, bo.Y} {
					arith, isA := stripConv(side).(*ssa.BinOp)
					if !isA || (arith.Op != token.ADD && arith.Op != token.MUL) || !e.tainted[arith] {
						continue
					}
					n++
					key := fmt.Sprintf("%s/guard-sum#%d", fnKey(fn), n)
					ok := true
					var who []string
					for _, r := range e.roots(arith) {
						g := e.factsAbout(r, b, 0)
						if len(g.Uppers) == 0 {
							ok = false
							who = append(who, rootName(r))
						}
					}
					c.Check(ok, key, P.pos(bo.Pos()), "the decoded operand is upper-bounded before it is added", fmt.Sprintf("the guard computes a sum with %s, which is decoded from the input and not yet bounded: near MaxInt the sum wraps negative and the guard passes", strings.Join(who, ", ")))
				}
			}
		}
	}
}

func rootName(v ssa.Value) string {
	switch x := v.(type) {
	case *ssa.Parameter:
		return "parameter " + x.Name()
	case *ssa.Phi:
		if x.Comment != "" {
			return x.Comment
		}
	case *ssa.Extract:
		if call, ok := x.Tuple.(*ssa.Call); ok && call.Call.StaticCallee() != nil {
			return "the varint from " + qualNameShort(call.Call.StaticCallee())
		}
	}
	return v.Name()
}

// ---------- TL-IDX: minimum lengths

type minLenEnv struct {
	P    *Program
	memo map[string]int64
	// parameter minimum lengths from call sites
	paramMin map[*ssa.Parameter]int64
}

func lenArgOf(v ssa.Value) ssa.Value {
	call, ok := stripConv(v).(*ssa.Call)
	if !ok {
		return nil
	}
	if bi, ok := call.Call.Value.(*ssa.Builtin); ok && bi.Name() == "len" {
		return call.Call.Args[0]
	}
	return nil
}

// minLenAt returns a lower bound on len(v) that holds whenever control is at
// the end of... block b (using the comparison facts known there).
func (m *minLenEnv) minLenAt(v ssa.Value, facts []Cmp, depth int) int64 {
	if depth > 10 {
		return 0
	}
	best := int64(0)
	// facts about len(v)
	for _, cmp := range facts {
		x, y, op := cmp.X, cmp.Y, cmp.Op
		shift := int64(0)
		lenOrShifted := func(e ssa.Value) bool {
			if lenArgOf(e) == v {
				shift = 0
				return true
			}
			// len(v) - c  /  len(v) + c compared with a constant
			if bo, isBo := stripConv(e).(*ssa.BinOp); isBo && (bo.Op == token.SUB || bo.Op == token.ADD) && lenArgOf(bo.X) == v {
				if cst, isK := constInt(bo.Y); isK {
					shift = cst
					if bo.Op == token.ADD {
						shift = -cst
					}
					return true
				}
			}
			return false
		}
		if !lenOrShifted(x) {
			if !lenOrShifted(y) {
				continue
			}
			x, y, op = y, x, swapOp(op)
		}
		k, ok := constInt(y)
		if !ok {
			continue
		}
		k += shift
		switch op {
		case token.GEQ:
			if k > best {
				best = k
			}
		case token.GTR:
			if k+1 > best {
				best = k + 1
			}
		case token.EQL:
			if k > best {
				best = k
			}
		case token.NEQ:
			if k == 0 && best < 1 {
				best = 1
			}
		}
	}
	// structure
	switch x := v.(type) {
	case *ssa.Slice:
		lo := int64(0)
		if x.Low != nil {
			k, ok := constInt(x.Low)
			if !ok {
				return best
			}
			lo = k
		}
		if x.High != nil {
			if hi, ok := constInt(x.High); ok && hi-lo > best {
				best = hi - lo
			}
			return best
		}
		base := m.minLenAt(x.X, cmpFactsAt(x.Block()), depth+1)
		if base-lo > best {
			best = base - lo
		}
	case *ssa.Phi:
		mn := int64(-1)
		for i, ed := range x.Edges {
			pred := x.Block().Preds[i]
			l := m.minLenAt(ed, cmpFactsOnEdge(pred, x.Block()), depth+1)
			if mn < 0 || l < mn {
				mn = l
			}
		}
		if mn > best {
			best = mn
		}
	case *ssa.Parameter:
		if l, ok := m.paramMin[x]; ok && l > best {
			best = l
		}
	case *ssa.Extract:
		// one result of a module helper: the least length any of its (not certainly failing) returns gives
		if call, ok := x.Tuple.(*ssa.Call); ok && depth < 6 {
			if g := call.Call.StaticCallee(); g != nil && m.P.isModuleFunc(g) && g.Blocks != nil {
				ei := errorResultIndex(g.Signature)
				mn := int64(-1)
				for _, r := range returnsOf(g) {
					rs := resolvedResults(r)
					if x.Index >= len(rs) {
						mn = 0
						break
					}
					if ei >= 0 {
						if isFreshError(rs[ei]) {
							continue
						}
						if nn, _ := knownNonNil(r.Block(), rs[ei]); nn {
							continue
						}
					}
					l := m.minLenAt(rs[x.Index], cmpFactsAt(r.Block()), depth+2)
					if mn < 0 || l < mn {
						mn = l
					}
				}
				if mn > best {
					best = mn
				}
			}
		}
	case *ssa.Const:
		if s, ok := constString(x); ok && int64(len(s)) > best {
			best = int64(len(s))
		}
	case *ssa.Convert:
		if l := m.minLenAt(x.X, facts, depth+1); l > best {
			best = l
		}
	}
	return best
}

// rangeIndexBounds analyses an index expression built from the key of a range
// over x: returns the constant values it may take when the loop body never
// ran, and the largest c such that idx <= len(x)-1+c when it did.
func rangeIndexBounds(idx ssa.Value, x ssa.Value) (consts []int64, rel int64, hasRel, ok bool) {
	seen := map[ssa.Value]bool{}
	ok = true
	var walk func(v ssa.Value, add int64, d int)
	walk = func(v ssa.Value, add int64, d int) {
		if d > 8 || !ok {
			ok = ok && d <= 8
			return
		}
		if seen[v] && add == 0 {
			return
		}
		seen[v] = true
		switch y := v.(type) {
		case *ssa.Const:
			if k, isK := constInt(y); isK {
				consts = append(consts, k+add)
				return
			}
		case *ssa.Phi:
			for _, ed := range y.Edges {
				walk(ed, add, d+1)
			}
			return
		case *ssa.BinOp:
			if k, isK := constInt(y.Y); isK && (y.Op == token.ADD || y.Op == token.SUB) {
				if y.Op == token.SUB {
					k = -k
				}
				walk(y.X, add+k, d+1)
				return
			}
		case *ssa.Extract:
			if nx, isN := y.Tuple.(*ssa.Next); isN && y.Index == 1 {
				if rg, isR := nx.Iter.(*ssa.Range); isR && rg.X == x {
					if !hasRel || add > rel {
						rel = add
					}
					hasRel = true
					return
				}
			}
		}
		ok = false
	}
	walk(idx, 0, 0)
	return
}

func ruleTLIdx(c *Ctx) {
	c.Rule("TL-IDX", "every constant (or range-index) offset into a string or slice on the reading path lies within a length the code has already established", 25)
	P := c.P
	m := &minLenEnv{P: P, memo: map[string]int64{}, paramMin: map[*ssa.Parameter]int64{}}
	// scope: time.parseTime and its helpers, and the decompressors
	var scope []*ssa.Function
	seen := map[*ssa.Function]bool{}
	var addFn func(f *ssa.Function)
	addFn = func(f *ssa.Function) {
		if f == nil || seen[f] || !P.isModuleFunc(f) || f.Blocks == nil {
			return
		}
		seen[f] = true
		scope = append(scope, f)
		for _, cs := range callsIn(f) {
			if cs.Static != nil && cs.Static.Pkg == f.Pkg && f.Pkg == P.Time {
				addFn(cs.Static)
			}
		}
	}
	addFn(P.Func(P.Time, "parseTime"))
	s := findReadFile(P)
	if s.compIface != nil {
		for _, impl := range implementations(P, s.compIface) {
			addFn(P.Method(impl, "decompress"))
		}
	}
	if !c.Anchor(len(scope) >= 3, "time.parseTime, its helpers and the decompressors") {
		return
	}
	// parameter minimum lengths: min over call sites (string/slice params of unexported helpers)
	for iter := 0; iter < 3; iter++ {
		for _, f := range scope {
			if f.Object() != nil && f.Object().Exported() {
				continue
			}
			for i, p := range f.Params {
				if _, isStr := p.Type().Underlying().(*types.Basic); !isStr {
					if _, isSl := p.Type().Underlying().(*types.Slice); !isSl {
						continue
					}
				}
				mn := int64(-1)
				for _, g := range P.ModuleFuncs() {
					for _, cs := range callsIn(g) {
						if cs.Static == f && i < len(cs.Common.Args) {
							l := m.minLenAt(cs.Common.Args[i], cmpFactsAt(cs.Block), 0)
							if mn < 0 || l < mn {
								mn = l
							}
						}
					}
				}
				if mn > 0 {
					m.paramMin[p] = mn
				}
			}
		}
	}
	// the timestamp parser folded over all inputs up to a length (rules_ptfold.go): a second, independent
	// decision of "no input makes an offset go out of range", which also settles the offsets whose bound the
	// length dataflow cannot follow (a helper that relies on what its caller, or a sibling helper's result,
	// established)
	var pp *ptPanics
	if pfn := P.Func(P.Time, "parseTime"); pfn != nil && len(pfn.Params) == 1 {
		nmax := int64(32)
		if c.Tier == "thorough" {
			nmax = 56
		}
		pp = parseNoPanic(P, pfn, nmax)
		key := fnKey(pfn) + "/no-panic-by-fold"
		switch {
		case !pp.ok:
			c.Note("TL-IDX: the parser could not be folded over all short inputs (%s); the offsets are decided by the length dataflow alone", pp.why)
		case len(pp.panicAt) > 0:
			var sites []string
			for in := range pp.panicAt {
				sites = append(sites, P.pos(in.Pos()))
			}
			sort.Strings(sites)
			c.Bad(key, P.pos(pfn.Pos()), fmt.Sprintf("some input of at most %d bytes makes the parser panic at %s", pp.n, strings.Join(sites, ", ")))
		default:
			c.OK(key, P.pos(pfn.Pos()), fmt.Sprintf("folded over every input of 0..%d bytes, all byte values at once (%d paths): none of the %d index/slice sites executed with known offsets goes out of range (%d more are executed with an offset the fold does not know exactly and are left to the length dataflow)", pp.n, pp.paths, len(pp.touched)-len(pp.unsure), len(pp.unsure)))
		}
	}
	rescued := func(in ssa.Instruction, key string, what string) bool {
		if pp == nil || !pp.ok || !pp.touched[in] || pp.panicAt[in] || pp.unsure[in] {
			return false
		}
		c.OK(key, P.pos(in.Pos()), fmt.Sprintf("the length dataflow does not establish the bound here; decided by folding the parser over every input of up to %d bytes (all byte values): this %s is executed and never out of range (inputs longer than that differ only in the number of fraction digits the loop consumes)", pp.n, what))
		return true
	}
	var excluded []string
	for _, f := range scope {
		n := 0
		for _, b := range f.Blocks {
			facts := cmpFactsAt(b)
			for _, in := range b.Instrs {
				var base ssa.Value
				var need int64 = -1
				var idxExpr ssa.Value
				what := ""
				switch x := in.(type) {
				case *ssa.Index:
					base, idxExpr, what = x.X, x.Index, "index"
					if k, ok := constInt(x.Index); ok {
						need = k + 1
					}
				case *ssa.IndexAddr:
					if pt, isArr := x.X.Type().Underlying().(*types.Pointer); isArr {
						// arrays: the compiler checks constant indices; a computed one needs a dominating bound
						if _, isK := x.Index.(*ssa.Const); isK {
							continue
						}
						at, ok := pt.Elem().Underlying().(*types.Array)
						if !ok {
							continue
						}
						n++
						key := fmt.Sprintf("%s/array-index#%d", fnKey(f), n)
						bounded := false
						idx := stripConv(x.Index)
						for _, cmp := range facts {
							if stripConv(cmp.X) != idx {
								continue
							}
							if k, ok := (Folder{P}).FoldInt(cmp.Y); ok {
								if cmp.Op == token.LSS && k <= at.Len() || cmp.Op == token.LEQ && k < at.Len() {
									bounded = true
								}
							}
						}
						// a loop counter of a loop bounded by the array's length
						if phi, isPhi := idx.(*ssa.Phi); isPhi && !bounded {
							if l := loopWithHeader(f, phi.Block()); l != nil {
								if cl := countedLoop(l); cl != nil && cl.Phi == phi {
									if k, ok := (Folder{P}).FoldInt(cl.Bound); ok && cl.Op == token.LSS && k <= at.Len() {
										bounded = true
									}
								}
							}
						}
						// unsigned small types cannot exceed large tables
						if b, ok := idx.Type().Underlying().(*types.Basic); ok && b.Kind() == types.Uint8 && at.Len() >= 256 {
							bounded = true
						}
						if !bounded && rescued(in, key, "array index") {
							continue
						}
						c.Check(bounded, key, P.pos(in.Pos()), fmt.Sprintf("the computed index is known to be below the array's length %d", at.Len()), fmt.Sprintf("a computed index into an array of %d elements has no dominating bound: input that drives it past the end panics", at.Len()))
						continue
					}
					base, idxExpr, what = x.X, x.Index, "index"
					if k, ok := constInt(x.Index); ok {
						need = k + 1
					}
				case *ssa.Slice:
					if _, isPtr := x.X.Type().Underlying().(*types.Pointer); isPtr {
						continue
					}
					base, what = x.X, "slice"
					hi := x.High
					if hi == nil {
						hi = x.Low
					}
					idxExpr = hi
					if hi == nil {
						continue
					}
					if k, ok := constInt(hi); ok {
						need = k
					} else if lenArgOf(hi) == x.X {
						continue
					} else if bo, isBo := hi.(*ssa.BinOp); isBo && bo.Op == token.SUB && lenArgOf(bo.X) == x.X {
						// x[len(x)-k:] / x[:len(x)-k]
						if k, ok := constInt(bo.Y); ok {
							need = k
						}
					}
				default:
					continue
				}
				if _, isStrOrSlice := base.Type().Underlying().(*types.Basic); !isStrOrSlice {
					if _, isSl := base.Type().Underlying().(*types.Slice); !isSl {
						continue
					}
				}
				n++
				key := fmt.Sprintf("%s/%s#%d", fnKey(f), what, n)
				have := m.minLenAt(base, facts, 0)
				if need >= 0 {
					if have < need && rescued(in, key, what) {
						continue
					}
					c.Check(have >= need, key, P.pos(in.Pos()), fmt.Sprintf("needs length >= %d, established >= %d", need, have), fmt.Sprintf("this %s needs a length of at least %d but only %d has been established on some path: shorter input panics", what, need, have))
					continue
				}
				// range-index expression?
				consts, rel, hasRel, ok := rangeIndexBounds(idxExpr, base)
				if ok && (hasRel || len(consts) > 0) {
					good := !hasRel || rel <= 1
					worst := int64(0)
					for _, k := range consts {
						if k > worst {
							worst = k
						}
						if k < 0 {
							good = false
						}
					}
					if worst > have {
						good = false
					}
					if !good && rescued(in, key, what) {
						continue
					}
					c.Check(good, key, P.pos(in.Pos()), fmt.Sprintf("offset is a range index of the same string (+%d at most) or a constant <= %d, the established minimum length", rel, have),
						fmt.Sprintf("when the loop over this string does not run, the offset is the constant %d but the string may be empty (established minimum length %d): input that ends right here panics", worst, have))
					continue
				}
				excluded = append(excluded, fmt.Sprintf("%s at %s (offset %s)", key, P.pos(in.Pos()), idxExpr.String()))
			}
		}
	}
	if len(excluded) > 0 {
		c.Note("TL-IDX does not decide these non-constant offsets: %s", strings.Join(excluded, "; "))
	}
}

// ---------- NIL-OBJ

func ruleNilObj(c *Ctx) {
	c.Rule("NIL-OBJ", "a schema's optional object part is dereferenced only where it is known to be non-nil", 6)
	P := c.P
	// pointer-typed fields of module structs that some function compares with nil
	type fld struct {
		T    types.Type
		Name string
	}
	isBelief := map[string]bool{}
	fieldKey := func(fa *ssa.FieldAddr) string {
		return typeKey(fa.X.Type().Underlying().(*types.Pointer).Elem()) + "." + fieldName(fa.X.Type(), fa.Field)
	}
	for _, fn := range P.ModuleFuncs() {
		for _, b := range fn.Blocks {
			for _, in := range b.Instrs {
				bo, ok := in.(*ssa.BinOp)
				if !ok || (bo.Op != token.EQL && bo.Op != token.NEQ) || !isNilConst(bo.Y) {
					continue
				}
				if ld, ok := bo.X.(*ssa.UnOp); ok && ld.Op == token.MUL {
					if fa, ok := ld.X.(*ssa.FieldAddr); ok {
						if _, isPtr := ld.Type().Underlying().(*types.Pointer); isPtr {
							isBelief[fieldKey(fa)] = true
						}
					}
				}
			}
		}
	}
	for _, fn := range P.ModuleFuncs() {
		n := 0
		for _, b := range fn.Blocks {
			for _, in := range b.Instrs {
				// a dereference of a value loaded from a belief field
				var base ssa.Value
				switch x := in.(type) {
				case *ssa.FieldAddr:
					base = x.X
				case *ssa.UnOp:
					if x.Op == token.MUL {
						base = x.X
					}
				}
				ld, ok := base.(*ssa.UnOp)
				if !ok || ld.Op != token.MUL {
					continue
				}
				fa, ok := ld.X.(*ssa.FieldAddr)
				if !ok || !isBelief[fieldKey(fa)] {
					continue
				}
				n++
				key := fmt.Sprintf("%s/deref[%s]#%d", fnKey(fn), fieldKey(fa), n)
				path := accessPath(ld)
				okNN := false
				for _, cmp := range cmpFactsAt(b) {
					if cmp.Op == token.NEQ && isNilConst(cmp.Y) && accessPath(cmp.X) == path {
						okNN = true
					}
				}
				if !okNN {
					// freshly assigned a new object in this function?
					if st := reachingStore(ld); st != nil {
						if _, isAlloc := st.Val.(*ssa.Alloc); isAlloc {
							okNN = true
						}
					}
				}
				if !okNN && (fn.Object() == nil || !fn.Object().Exported()) {
					// an unexported helper: the same field is known non-nil at every call site
					okNN = nonNilAtEveryCall(P, fn, path)
				}
				c.Check(okNN, key, P.pos(in.Pos()), "dominated by a non-nil test (or a fresh allocation) of the same field, here or at every call site of this unexported helper", fmt.Sprintf("%s is dereferenced without a dominating nil test although other code treats it as optional: a schema written as a bare type name (\"array\", \"map\", \"fixed\") panics here", fieldKey(fa)))
			}
		}
	}
}

// ---------- PANIC-REACH

func rulePanicReach(c *Ctx) {
	c.Rule("PANIC-REACH", "explicit panics and unchecked type assertions on the reading path are unreachable or justified", 4)
	P := c.P
	// reading-side scope: everything except the writers
	writerOnly := map[string]bool{"Write": true, "Encode": true, "Flush": true, "WriteBlock": true, "WriteHeader": true, "AppendHeader": true, "compress": true}
	for _, fn := range P.ModuleFuncs() {
		if writerOnly[fn.Name()] || isGenericBody(fn) {
			continue // generic bodies are judged per instantiation
		}
		live := map[*ssa.BasicBlock]bool{}
		// fold constant branches
		var visit func(b *ssa.BasicBlock)
		visit = func(b *ssa.BasicBlock) {
			if live[b] {
				return
			}
			live[b] = true
			if iff, ok := b.Instrs[len(b.Instrs)-1].(*ssa.If); ok {
				if cmp, ok := asCmp(iff.Cond, true); ok {
					x, okx := (Folder{P}).FoldInt(cmp.X)
					y, oky := (Folder{P}).FoldInt(cmp.Y)
					if okx && oky && cmp.Op == token.EQL {
						if x == y {
							visit(b.Succs[0])
						} else {
							visit(b.Succs[1])
						}
						return
					}
				}
			}
			for _, s := range b.Succs {
				visit(s)
			}
		}
		if len(fn.Blocks) > 0 {
			visit(fn.Blocks[0])
		}
		n := 0
		for _, b := range fn.Blocks {
			for _, in := range b.Instrs {
				switch x := in.(type) {
				case *ssa.Panic:
					if isRangeFuncGuard(x) {
						continue // compiler-made guard of a range-over-func loop: fires only if the iterator misbehaves
					}
					n++
					key := fmt.Sprintf("%s/panic#%d", fnKey(fn), n)
					if live[b] {
						// the branch is not a constant comparison: fold the whole method (a lookup of the type's
						// size in an initialisation-time table, say) and see whether any path gets here
						if sf := foldSmall(P, fn); sf.ok && !sf.panicAt[x] {
							c.OK(key, P.pos(x.Pos()), fmt.Sprintf("no path of the method folded with its arguments unknown reaches this panic (%d outcomes)", len(sf.outs)))
							continue
						}
					}
					c.Check(!live[b], key, P.pos(x.Pos()), "unreachable once the constant switch on the type's size is folded for this instantiation", "an explicit panic is reachable on the reading path")
				case *ssa.TypeAssert:
					if x.CommaOk {
						continue
					}
					n++
					key := fmt.Sprintf("%s/assert#%d[%s]", fnKey(fn), n, typeKey(x.AssertedType))
					switch {
					case typeKey(x.AssertedType) == "*avro.ResourceBank":
						// the only producer is the pool's New (LK-POOL decides that)
						c.OK(key, P.pos(x.Pos()), "the pool only ever holds *ResourceBank (its New and every Put, decided by LK-POOL)")
					case typeKey(x.AssertedType) == "compress/flate.Resetter":
						c.OK(key, P.pos(x.Pos()), "compress/flate documents that the reader returned by NewReader implements Resetter")
					case flateReaderAssert(x):
						c.OK(key, P.pos(x.Pos()), "the direct result of flate.NewReader is asserted to an interface made of Read/Close and flate.Resetter's Reset, all of which compress/flate documents it to have")
					default:
						c.Bad(key, P.pos(x.Pos()), "an unchecked type assertion on the reading path can panic")
					}
				}
			}
		}
	}
}

// isGenericBody: fn is the uninstantiated body of a generic function or of a
// method of a generic type.
func isGenericBody(fn *ssa.Function) bool {
	return fn.TypeParams().Len() > 0 && len(fn.TypeArgs()) == 0
}

// fieldThroughStructCopy: ld = *(&B.f) where local B was assigned, as a
// whole, the value of local A; returns the value stored to A.f.
func fieldThroughStructCopy(ld *ssa.UnOp) ssa.Value {
	fa, ok := ld.X.(*ssa.FieldAddr)
	if !ok {
		return nil
	}
	b, ok := fa.X.(*ssa.Alloc)
	if !ok {
		return nil
	}
	for d := 0; d < 3; d++ {
		var src *ssa.Alloc
		for _, r := range referrersOf(b) {
			if st, ok := r.(*ssa.Store); ok && st.Addr == ssa.Value(b) {
				if l2, ok := st.Val.(*ssa.UnOp); ok && l2.Op == token.MUL {
					if a, ok := l2.X.(*ssa.Alloc); ok {
						src = a
					}
				}
			}
		}
		if src == nil {
			return nil
		}
		for _, r := range referrersOf(src) {
			if fb, ok := r.(*ssa.FieldAddr); ok && fb.Field == fa.Field {
				for _, r2 := range referrersOf(fb) {
					if st, ok := r2.(*ssa.Store); ok && st.Addr == ssa.Value(fb) {
						return st.Val
					}
				}
			}
		}
		b = src
	}
	return nil
}

// nonNilAtEveryCall: fn is only ever called statically, and at each call the
// value with access path `path` (in fn's terms) is known to be non-nil.
func nonNilAtEveryCall(P *Program, fn *ssa.Function, path string) bool {
	return nonNilAtEveryCallD(P, fn, path, 0)
}

func nonNilAtEveryCallD(P *Program, fn *ssa.Function, path string, depth int) bool {
	n := 0
	for _, g := range P.ModuleFuncs() {
		for _, b := range g.Blocks {
			for _, in := range b.Instrs {
				for _, op := range in.Operands(nil) {
					if *op != ssa.Value(fn) {
						continue
					}
					call, isCall := in.(*ssa.Call)
					if !isCall || call.Call.Value != ssa.Value(fn) {
						return false // used as a value, deferred or started as a goroutine
					}
					tp, ok := translatePath(path, fn, call.Call.Args)
					if !ok {
						return false
					}
					known := false
					for _, cmp := range cmpFactsAt(b) {
						if cmp.Op == token.NEQ && isNilConst(cmp.Y) && accessPath(cmp.X) == tp {
							known = true
						}
					}
					if !known && depth < 3 && (g.Object() == nil || !g.Object().Exported()) {
						// the caller is itself an unexported helper: the fact may hold at all of its call sites
						known = nonNilAtEveryCallD(P, g, tp, depth+1)
					}
					if !known {
						return false
					}
					n++
				}
			}
		}
	}
	return n > 0
}

// originFns: the functions in which the decoded values reaching v are decoded
// (the callers' argument roots are followed through parameters).
// originCalls: the calls whose results the value's taint starts at; nil when some origin is not a call result.
func (e *tlEnv) originCalls(v ssa.Value) []*ssa.Call {
	var out []*ssa.Call
	okAll := true
	seen := map[ssa.Value]bool{}
	var rec func(v ssa.Value, d int)
	rec = func(v ssa.Value, d int) {
		if d > 4 {
			okAll = false
			return
		}
		for _, r := range e.roots(v) {
			if seen[r] {
				continue
			}
			seen[r] = true
			switch x := r.(type) {
			case *ssa.Parameter:
				if len(e.sites[x]) == 0 {
					okAll = false
				}
				for _, s := range e.sites[x] {
					rec(s.Arg, d+1)
				}
			case *ssa.Extract:
				if call, ok := x.Tuple.(*ssa.Call); ok {
					out = append(out, call)
				} else {
					okAll = false
				}
			case *ssa.Call:
				out = append(out, x)
			default:
				okAll = false
			}
		}
	}
	rec(v, 0)
	if !okAll {
		return nil
	}
	return out
}

func (e *tlEnv) originFns(v ssa.Value, depth int) []string {
	set := map[string]bool{}
	var rec func(v ssa.Value, d int)
	rec = func(v ssa.Value, d int) {
		if d > 4 {
			return
		}
		for _, r := range e.roots(v) {
			switch x := r.(type) {
			case *ssa.Parameter:
				if len(e.sites[x]) == 0 {
					set[fnKey(x.Parent())] = true
				}
				for _, s := range e.sites[x] {
					rec(s.Arg, d+1)
				}
			default:
				if in, ok := r.(ssa.Instruction); ok && in.Parent() != nil {
					set[fnKey(in.Parent())] = true
				}
			}
		}
	}
	rec(v, depth)
	var out []string
	for k := range set {
		out = append(out, k)
	}
	sort.Strings(out)
	return out
}

// flateReaderAssert: the operand is the direct result of compress/flate's
// NewReader/NewReaderDict and the asserted type is an interface all of whose
// methods are those of io.ReadCloser and flate.Resetter.
func flateReaderAssert(x *ssa.TypeAssert) bool {
	call, ok := x.X.(*ssa.Call)
	if !ok {
		return false
	}
	g := call.Call.StaticCallee()
	if g == nil || g.Pkg == nil || g.Pkg.Pkg.Path() != "compress/flate" || !strings.HasPrefix(g.Name(), "NewReader") {
		return false
	}
	it, ok := x.AssertedType.Underlying().(*types.Interface)
	if !ok {
		return false
	}
	want := map[string]string{
		"Read":  "func(p []byte) (n int, err error)",
		"Close": "func() error",
		"Reset": "func(r io.Reader, dict []byte) error",
	}
	for i := 0; i < it.NumMethods(); i++ {
		m := it.Method(i)
		sig := types.TypeString(m.Type(), func(p *types.Package) string { return p.Name() })
		if w, ok := want[m.Name()]; !ok || w != sig {
			return false
		}
	}
	return it.NumMethods() > 0
}

// isRangeFuncGuard: one of the two panics go/ssa synthesises around the body
// of a range-over-func loop (no source position, fixed message). They guard
// the iterator protocol, not the data.
func isRangeFuncGuard(p *ssa.Panic) bool {
	if p.Pos() != token.NoPos {
		return false
	}
	mi, ok := p.X.(*ssa.MakeInterface)
	if !ok {
		return false
	}
	s, ok := constString(mi.X)
	return ok && (s == "iterator call did not preserve panic" || s == "yield function called after range loop exit")
}

// reachedOnlyFrom: every chain of static calls leading to f starts at root (f has callers, and each is root
// or itself reached only from root).
func reachedOnlyFrom(P *Program, f, root *ssa.Function, d int) bool {
	if d > 4 {
		return false
	}
	sites := callersOf(P, f)
	if len(sites) == 0 {
		return false
	}
	for _, s := range sites {
		g := s.Parent()
		if g == root || g == f {
			continue
		}
		if !reachedOnlyFrom(P, g, root, d+1) {
			return false
		}
	}
	return true
}

// isRangeIndex: v is the index of a range loop in its rotated SSA form: i = phi(-1, i+1) incremented to
// t = i + 1 before the bound test, or the classic phi(0, i+1).
func isRangeIndex(v ssa.Value) bool {
	nonNeg := func(p *ssa.Phi, next ssa.Value) bool {
		for _, e := range p.Edges {
			if k, isK := constInt(e); isK {
				if k < -1 {
					return false
				}
				continue
			}
			if e != next {
				return false
			}
		}
		return true
	}
	switch x := v.(type) {
	case *ssa.Phi:
		// classic: i = phi(0, i+1)
		for _, e := range x.Edges {
			if bo, ok := e.(*ssa.BinOp); ok && bo.Op == token.ADD && bo.X == ssa.Value(x) {
				if k, isK := constInt(bo.Y); isK && k == 1 {
					init := true
					for _, e2 := range x.Edges {
						if k2, isK2 := constInt(e2); isK2 && k2 < 0 {
							init = false
						}
					}
					return init && nonNeg(x, bo)
				}
			}
		}
	case *ssa.BinOp:
		// rotated: t = phi(-1, t) + 1
		if p, ok := x.X.(*ssa.Phi); ok && x.Op == token.ADD {
			if k, isK := constInt(x.Y); isK && k == 1 {
				return nonNeg(p, x)
			}
		}
	}
	return false
}
