package main

import (
	"fmt"
	"go/types"

	"golang.org/x/tools/go/ssa"
)

// SG-SEEN: the set of types "currently being expanded" that schema generation threads through its
// recursion is a stack discipline kept in a map: a type marked on the way in is unmarked on the way out.
// A mark that survives a successful return makes the next, unrelated occurrence of that type in the same
// call look like a cycle ("the same type used in several positions" then fails). Pairing rule: from every
// store `seen[t] = …` every path to a return that may report success passes `delete(seen, t)` — directly or
// as a deferred call registered on that path.

func isTypeSet(t types.Type) bool {
	m, ok := t.Underlying().(*types.Map)
	if !ok {
		return false
	}
	// a set: the values carry nothing (a registry keyed by type is not one)
	switch e := m.Elem().Underlying().(type) {
	case *types.Basic:
		if e.Kind() != types.Bool {
			return false
		}
	case *types.Struct:
		if e.NumFields() != 0 {
			return false
		}
	default:
		return false
	}
	n, ok := types.Unalias(m.Key()).(*types.Named)
	return ok && n.Obj().Pkg() != nil && n.Obj().Pkg().Path() == "reflect" && n.Obj().Name() == "Type"
}

type seenLeak struct {
	upd    *ssa.MapUpdate
	ret    *ssa.Return // nil: no leak
	lifted int         // > 0: the mark is set by a helper; its callers (that many) unmark
}

func seenMarks(fns []*ssa.Function) []seenLeak { return seenMarksWith(fns, isTypeSet) }

func seenMarksWith(fns []*ssa.Function, isTypeSet func(types.Type) bool) []seenLeak {
	// unmarkers: functions that delete from such a set (a `leave` helper); calling or deferring one unmarks
	unmarker := map[*ssa.Function]bool{}
	deletes := map[*ssa.Function]bool{} // functions that delete from such a set at all
	for _, fn := range fns {
		for _, cs := range callsIn(fn) {
			if bi, ok := cs.Common.Value.(*ssa.Builtin); ok && bi.Name() == "delete" && len(cs.Common.Args) == 2 && isTypeSet(cs.Common.Args[0].Type()) {
				deletes[fn] = true
			}
		}
		marks := false
		for _, b := range fn.Blocks {
			for _, in := range b.Instrs {
				if mu, ok := in.(*ssa.MapUpdate); ok && isTypeSet(mu.Map.Type()) {
					marks = true
				}
			}
		}
		// a pure `leave`: deletes and never marks
		if deletes[fn] && !marks {
			unmarker[fn] = true
		}
	}
	// leakFrom: the first success return reachable from position (b, idx) without passing an unmark
	leakFrom := func(b *ssa.BasicBlock, idx int, isUnmark func(ssa.Instruction) bool) *ssa.Return {
		var found *ssa.Return
		visited := map[*ssa.BasicBlock]bool{}
		var walk func(bb *ssa.BasicBlock, from int)
		walk = func(bb *ssa.BasicBlock, from int) {
			if found != nil {
				return
			}
			for _, x := range bb.Instrs[from:] {
				if isUnmark(x) {
					return
				}
				if r, ok := x.(*ssa.Return); ok {
					failing := false
					if n := len(r.Results); n > 0 && isErrorType(r.Results[n-1].Type()) {
						e := resolvedResults(r)[n-1] // through the spill slots of a function with defers
						if nn, _ := knownNonNil(bb, e); nn {
							failing = true
						}
						if isFreshError(e) {
							failing = true
						}
					}
					if !failing {
						found = r
					}
					return
				}
			}
			for _, s := range bb.Succs {
				if !visited[s] {
					visited[s] = true
					walk(s, 0)
				}
			}
		}
		walk(b, idx)
		return found
	}
	callsUnmarker := func(x ssa.Instruction) bool {
		ci, ok := x.(ssa.CallInstruction)
		if !ok {
			return false
		}
		if _, isGo := x.(*ssa.Go); isGo {
			return false
		}
		cc := ci.Common()
		if g := cc.StaticCallee(); g != nil && (unmarker[g] || g.Origin() != nil && unmarker[g.Origin()]) {
			return true
		}
		// defer func() { delete(seen, t) }() / defer func() { g.leave(t) }()
		if d, ok := x.(*ssa.Defer); ok {
			if mc, ok := d.Call.Value.(*ssa.MakeClosure); ok {
				if f, ok := mc.Fn.(*ssa.Function); ok {
					for _, cs := range callsIn(f) {
						if bi, ok := cs.Common.Value.(*ssa.Builtin); ok && bi.Name() == "delete" {
							return true
						}
						if cs.Static != nil && unmarker[cs.Static] {
							return true
						}
					}
				}
			}
		}
		return false
	}
	var out []seenLeak
	for _, fn := range fns {
		for _, b := range fn.Blocks {
			for idx, in := range b.Instrs {
				mu, ok := in.(*ssa.MapUpdate)
				if !ok || !isTypeSet(mu.Map.Type()) {
					continue
				}
				// a store of false is an unmark, not a mark
				if k, isK := mu.Value.(*ssa.Const); isK && k.Value != nil && k.Value.String() == "false" {
					continue
				}
				isUnmark := func(x ssa.Instruction) bool {
					if u, ok := x.(*ssa.MapUpdate); ok && sameValue(u.Map, mu.Map) && u.Key == mu.Key {
						if k, isK := u.Value.(*ssa.Const); isK && k.Value != nil && k.Value.String() == "false" {
							return true
						}
					}
					if ci, ok := x.(ssa.CallInstruction); ok {
						if _, isGo := x.(*ssa.Go); !isGo {
							cc := ci.Common()
							if bi, ok := cc.Value.(*ssa.Builtin); ok && bi.Name() == "delete" && len(cc.Args) == 2 && sameValue(cc.Args[0], mu.Map) && cc.Args[1] == mu.Key {
								return true
							}
						}
					}
					return callsUnmarker(x)
				}
				leak := seenLeak{upd: mu, ret: leakFrom(b, idx+1, isUnmark)}
				if leak.ret == nil {
					out = append(out, leak)
					continue
				}
				// the mark outlives this function: if it is a helper that only marks (an `enter`), its callers
				// have to unmark; a function that marks and unmarks itself has simply missed a path
				if deletes[fn] {
					out = append(out, leak)
					continue
				}
				lifted, clean := 0, true
				var firstBad *ssa.Return
				for _, g := range fns {
					for _, gb := range g.Blocks {
						for gi, gin := range gb.Instrs {
							ci, ok := gin.(ssa.CallInstruction)
							if !ok || ci.Common().StaticCallee() != fn || g == fn {
								continue
							}
							lifted++
							anyUnmark := func(x ssa.Instruction) bool {
								if cx, ok := x.(ssa.CallInstruction); ok {
									if bi, ok := cx.Common().Value.(*ssa.Builtin); ok && bi.Name() == "delete" && len(cx.Common().Args) == 2 && isTypeSet(cx.Common().Args[0].Type()) {
										return true
									}
								}
								return callsUnmarker(x)
							}
							if r := leakFrom(gb, gi+1, anyUnmark); r != nil {
								clean = false
								if firstBad == nil {
									firstBad = r
								}
							}
						}
					}
				}
				if lifted > 0 && clean {
					leak.ret = nil
					leak.lifted = lifted
				} else if lifted > 0 {
					leak.ret = firstBad
				}
				out = append(out, leak)
			}
		}
	}
	return out
}

func ruleSGSeen(c *Ctx) {
	c.Rule("SG-SEEN", "a type marked as being expanded is unmarked again on every path to a return that can report success", 1)
	P := c.P
	for _, l := range seenMarks(P.ModuleFuncs()) {
		key := fnKey(l.upd.Parent()) + "/mark"
		if l.ret == nil {
			w := "every successful return after the mark passes the matching delete (direct or deferred)"
			if l.lifted > 0 {
				w = fmt.Sprintf("the mark is set by a helper; each of its %d call sites is followed, on every path to a successful return, by the unmark (a delete or a helper that deletes, direct or deferred)", l.lifted)
			}
			c.OK(key, P.pos(l.upd.Pos()), w)
		} else {
			c.Bad(key, P.pos(l.upd.Pos()), fmt.Sprintf("the mark set here survives the return at %s: the next occurrence of the same type in the same call is taken for a cycle and schema generation fails for a type that is not recursive", P.pos(l.ret.Pos())))
		}
	}
	fx := buildFixture(`package fx
type T interface{ Kind() int; Elem() T }
type S struct{ t string }
func good(t T, seen map[T]bool) (S, error) {
	seen[t] = true
	defer delete(seen, t)
	if t.Kind() == 1 { return S{"a"}, nil }
	return S{"b"}, nil
}
func bad(t T, seen map[T]bool) (S, error) {
	seen[t] = true
	if t.Kind() == 1 { return S{"a"}, nil }
	delete(seen, t)
	return S{"b"}, nil
}
`)
	if fx == nil {
		c.Unk("fixture/SG-SEEN", "-", "fixture package did not build")
		return
	}
	// the fixture cannot import reflect: its set is keyed by a local interface, matched structurally here
	hits := map[string]bool{}
	for _, m := range fx.Members {
		f, ok := m.(*ssa.Function)
		if !ok {
			continue
		}
		for _, l := range seenMarksWith([]*ssa.Function{f}, func(t types.Type) bool { _, ok := t.Underlying().(*types.Map); return ok }) {
			if l.ret != nil {
				hits[f.Name()] = true
			}
		}
	}
	o := c.ob(Discharged, "fixture/SG-SEEN", "-", fmt.Sprintf("positive fixture: leaks found in %v (expected exactly bad)", hits), false)
	if !(len(hits) == 1 && hits["bad"]) {
		o.Verdict, o.VerdictS = Undecided, "undecided"
	}
}
