package main

// Small NFA/DFA toolkit over string-labelled tokens: construction from a
// regular expression over tokens, epsilon closure, subset construction and
// language inclusion with a counter-example word.

import (
	"sort"
	"strings"
)

type nfaEdge struct {
	to    int
	label string // "" = epsilon
}

type NFA struct {
	edges  [][]nfaEdge
	start  int
	accept map[int]bool
}

func newNFA() *NFA {
	n := &NFA{accept: map[int]bool{}}
	n.start = n.newState()
	return n
}

func (n *NFA) newState() int {
	n.edges = append(n.edges, nil)
	return len(n.edges) - 1
}

func (n *NFA) add(from int, label string, to int) {
	n.edges[from] = append(n.edges[from], nfaEdge{to, label})
}

func (n *NFA) alphabet() map[string]bool {
	out := map[string]bool{}
	for _, es := range n.edges {
		for _, e := range es {
			if e.label != "" {
				out[e.label] = true
			}
		}
	}
	return out
}

func (n *NFA) closure(set map[int]bool) map[int]bool {
	stack := make([]int, 0, len(set))
	for s := range set {
		stack = append(stack, s)
	}
	for len(stack) > 0 {
		s := stack[len(stack)-1]
		stack = stack[:len(stack)-1]
		for _, e := range n.edges[s] {
			if e.label == "" && !set[e.to] {
				set[e.to] = true
				stack = append(stack, e.to)
			}
		}
	}
	return set
}

func setKey(set map[int]bool) string {
	ks := make([]int, 0, len(set))
	for s := range set {
		ks = append(ks, s)
	}
	sort.Ints(ks)
	var sb strings.Builder
	for _, k := range ks {
		sb.WriteString(itoa(k))
		sb.WriteByte(',')
	}
	return sb.String()
}

func itoa(i int) string {
	if i == 0 {
		return "0"
	}
	neg := i < 0
	if neg {
		i = -i
	}
	var b [20]byte
	p := len(b)
	for i > 0 {
		p--
		b[p] = byte('0' + i%10)
		i /= 10
	}
	if neg {
		p--
		b[p] = '-'
	}
	return string(b[p:])
}

func (n *NFA) step(set map[int]bool, label string) map[int]bool {
	out := map[int]bool{}
	for s := range set {
		for _, e := range n.edges[s] {
			if e.label == label {
				out[e.to] = true
			}
		}
	}
	return n.closure(out)
}

func (n *NFA) accepts(set map[int]bool) bool {
	for s := range set {
		if n.accept[s] {
			return true
		}
	}
	return false
}

// included decides L(a) ⊆ L(b). If not, returns a shortest witness word in
// L(a) \ L(b).
func included(a, b *NFA) (bool, []string) {
	alpha := a.alphabet()
	for l := range b.alphabet() {
		alpha[l] = true
	}
	var labels []string
	for l := range alpha {
		labels = append(labels, l)
	}
	sort.Strings(labels)
	type pair struct {
		sa, sb map[int]bool
		word   []string
	}
	sa := a.closure(map[int]bool{a.start: true})
	sb := b.closure(map[int]bool{b.start: true})
	seen := map[string]bool{setKey(sa) + "|" + setKey(sb): true}
	queue := []pair{{sa, sb, nil}}
	for len(queue) > 0 {
		p := queue[0]
		queue = queue[1:]
		if a.accepts(p.sa) && !b.accepts(p.sb) {
			return false, p.word
		}
		for _, l := range labels {
			na := a.step(p.sa, l)
			if len(na) == 0 {
				continue
			}
			nb := b.step(p.sb, l)
			k := setKey(na) + "|" + setKey(nb)
			if seen[k] {
				continue
			}
			seen[k] = true
			w := append(append([]string(nil), p.word...), l)
			queue = append(queue, pair{na, nb, w})
		}
	}
	return true, nil
}

// words enumerates the words of L(n) up to maxLen tokens (for evidence).
func (n *NFA) words(maxLen, maxCount int) []string {
	var labels []string
	for l := range n.alphabet() {
		labels = append(labels, l)
	}
	sort.Strings(labels)
	type item struct {
		set  map[int]bool
		word []string
	}
	var out []string
	start := n.closure(map[int]bool{n.start: true})
	queue := []item{{start, nil}}
	seenW := map[string]bool{}
	for len(queue) > 0 && len(out) < maxCount {
		it := queue[0]
		queue = queue[1:]
		if n.accepts(it.set) {
			w := strings.Join(it.word, " ")
			if w == "" {
				w = "ε"
			}
			if !seenW[w] {
				seenW[w] = true
				out = append(out, w)
			}
		}
		if len(it.word) >= maxLen {
			continue
		}
		for _, l := range labels {
			ns := n.step(it.set, l)
			if len(ns) > 0 {
				queue = append(queue, item{ns, append(append([]string(nil), it.word...), l)})
			}
		}
	}
	return out
}

// relabel returns a copy of n with labels mapped by f (f("") is not called).
func (n *NFA) relabel(f func(string) string) *NFA {
	o := &NFA{edges: make([][]nfaEdge, len(n.edges)), start: n.start, accept: map[int]bool{}}
	for s, es := range n.edges {
		for _, e := range es {
			l := e.label
			if l != "" {
				l = f(l)
			}
			o.edges[s] = append(o.edges[s], nfaEdge{e.to, l})
		}
	}
	for s := range n.accept {
		o.accept[s] = true
	}
	return o
}

// withAlso returns a copy of n in which every edge labelled l, for each
// (l -> extra) in also, gets parallel edges labelled with the extras. Used for
// the token compatibility relation (a reader V accepts the writer's Vs).
func (n *NFA) withAlso(also map[string][]string) *NFA {
	o := n.relabel(func(s string) string { return s })
	for s, es := range n.edges {
		for _, e := range es {
			for _, x := range also[e.label] {
				o.edges[s] = append(o.edges[s], nfaEdge{e.to, x})
			}
		}
	}
	return o
}

// ---------- regular expressions over tokens
//
// Grammar: alt := seq ('|' seq)* ; seq := rep* ; rep := atom ('*'|'?')* ;
// atom := TOKEN | '(' alt ')' ; the token "ε" is the empty word.

type rxParser struct {
	toks []string
	pos  int
	n    *NFA
}

func compileRegex(src string) *NFA {
	src = strings.NewReplacer("(", " ( ", ")", " ) ", "|", " | ", "*", " * ", "?", " ? ").Replace(src)
	p := &rxParser{toks: strings.Fields(src), n: newNFA()}
	s, e := p.alt()
	p.n.add(p.n.start, "", s)
	p.n.accept[e] = true
	return p.n
}

func (p *rxParser) peek() string {
	if p.pos < len(p.toks) {
		return p.toks[p.pos]
	}
	return ""
}

func (p *rxParser) alt() (int, int) {
	s, e := p.n.newState(), p.n.newState()
	for {
		a, b := p.seq()
		p.n.add(s, "", a)
		p.n.add(b, "", e)
		if p.peek() == "|" {
			p.pos++
			continue
		}
		break
	}
	return s, e
}

func (p *rxParser) seq() (int, int) {
	s := p.n.newState()
	cur := s
	for p.peek() != "" && p.peek() != "|" && p.peek() != ")" {
		a, b := p.rep()
		p.n.add(cur, "", a)
		cur = b
	}
	return s, cur
}

func (p *rxParser) rep() (int, int) {
	a, b := p.atom()
	for p.peek() == "*" || p.peek() == "?" {
		op := p.peek()
		p.pos++
		s, e := p.n.newState(), p.n.newState()
		p.n.add(s, "", a)
		p.n.add(b, "", e)
		p.n.add(s, "", e)
		if op == "*" {
			p.n.add(b, "", a)
		}
		a, b = s, e
	}
	return a, b
}

func (p *rxParser) atom() (int, int) {
	t := p.peek()
	p.pos++
	if t == "(" {
		a, b := p.alt()
		if p.peek() == ")" {
			p.pos++
		}
		return a, b
	}
	s, e := p.n.newState(), p.n.newState()
	if t == "ε" {
		p.n.add(s, "", e)
	} else {
		p.n.add(s, t, e)
	}
	return s, e
}
