package main

// E-CP, second part: slices of arrays, append, maps, deferred calls, a model
// of reflect.Type / reflect.StructField / reflect.StructTag, and constant
// folding through a few pure standard-library string functions.

import (
	"fmt"
	"go/token"
	"go/types"
	"os"
	"reflect"
	"sort"
	"strings"

	"golang.org/x/tools/go/ssa"
)

func (e *cpEngine) evalSlice(fr *cpFrame, x *ssa.Slice) cpVal {
	bound := func(v ssa.Value, def int64) (int64, bool) {
		if v == nil {
			return def, true
		}
		i, ok := e.get(fr, v).(cpInt)
		return i.V, ok
	}
	switch b := e.get(fr, x.X).(type) {
	case cpPtr:
		if b.C != nil {
			if u, isU := b.C.V.(cpUnk); isU && x.Low == nil && x.High == nil && u.Deps == "" {
				// the whole of an array the fold knows only by name: still nameable
				return cpUnk{ID: u.ID + "[:]"}
			}
			if a, ok := b.C.V.(cpArr); ok {
				if x.High != nil && x.Low == nil && len(a.Elems) > 0 {
					if u, isU := e.get(fr, x.High).(cpUnk); isU && e.varintBufs[u.ID] == a.Elems[0] {
						return cpUnk{ID: strings.Replace(u.ID, "len:", ":", 1)}
					}
				}
				lo, ok1 := bound(x.Low, 0)
				hi, ok2 := bound(x.High, int64(len(a.Elems)))
				if ok1 && ok2 {
					if lo < 0 || hi > int64(len(a.Elems)) || lo > hi {
						e.fail("panic-instr")
					}
					return cpSlice{T: x.Type(), Elems: a.Elems[lo:hi]}
				}
			}
		}
	case cpSlice:
		if x.High != nil && x.Low == nil && len(b.Elems) > 0 {
			if u, isU := e.get(fr, x.High).(cpUnk); isU && e.varintBufs[u.ID] == b.Elems[0] {
				// buf[:n] right after n := PutVarint(buf, v): the varint of v
				return cpUnk{ID: strings.Replace(u.ID, "len:", ":", 1)}
			}
		}
		lo, ok1 := bound(x.Low, 0)
		hi, ok2 := bound(x.High, int64(len(b.Elems)))
		if ok1 && ok2 && hi <= int64(len(b.Elems)) {
			if lo < 0 || lo > hi {
				e.fail("panic-instr")
			}
			return cpSlice{T: x.Type(), Elems: b.Elems[lo:hi]}
		}
	case cpStrSym:
		lo, ok1 := bound(x.Low, 0)
		hi, ok2 := bound(x.High, b.Len)
		if ok1 && ok2 {
			if lo < 0 || hi > b.Len || lo > hi {
				e.fail("panic-instr")
			}
			return cpStrSym{ID: b.ID, Off: b.Off + lo, Len: hi - lo}
		}
		e.fail("a symbolic string sliced at an unknown position")
	case cpStr:
		lo, ok1 := bound(x.Low, 0)
		hi, ok2 := bound(x.High, int64(len(b.V)))
		if ok1 && ok2 {
			if lo < 0 || hi > int64(len(b.V)) || lo > hi {
				e.fail("panic-instr")
			}
			return cpStr{b.V[lo:hi]}
		}
	case cpNil:
		if x.Low == nil && x.High == nil {
			return b
		}
	}
	r := e.fresh("slice")
	if e.trackAtoms && (x.Low != nil || x.High != nil) {
		if e.bufInfo == nil {
			e.bufInfo = map[string]cpBufInfo{}
		}
		of := ""
		if u, isU := e.get(fr, x.X).(cpUnk); isU {
			of = u.ID
		}
		bi := cpBufInfo{Of: of}
		if x.High != nil {
			bi.Len = e.get(fr, x.High)
		}
		if x.Low != nil {
			bi.Low = e.get(fr, x.Low)
		}
		e.bufInfo[r.ID] = bi
	}
	return r
}

// cpKey renders a value as a map key, if it is fully known.
func cpKey(v cpVal) (string, bool) {
	switch x := v.(type) {
	case cpInt:
		return fmt.Sprintf("i:%d", x.V), true
	case cpStr:
		return "s:" + x.V, true
	case cpBool:
		return fmt.Sprintf("b:%v", x.V), true
	case *cpRType:
		return "t:" + x.ID, true
	case cpIface:
		if k, ok := cpKey(x.V); ok {
			return "I:" + k, true
		}
	case cpStruct:
		st, ok := x.T.Underlying().(*types.Struct)
		if !ok {
			return "", false
		}
		out := "{"
		for i := 0; i < st.NumFields(); i++ {
			var fv cpVal = cpInt{0}
			if c, has := x.F[i]; has {
				fv = c.V
			} else {
				switch st.Field(i).Type().Underlying().(type) {
				case *types.Basic:
					b := st.Field(i).Type().Underlying().(*types.Basic)
					switch {
					case b.Info()&types.IsString != 0:
						fv = cpStr{""}
					case b.Info()&types.IsBoolean != 0:
						fv = cpBool{false}
					}
				default:
					return "", false
				}
			}
			k, ok := cpKey(fv)
			if !ok {
				return "", false
			}
			out += k + ","
		}
		return out + "}", true
	}
	return "", false
}

// cpLookupMiss: lookups in maps whose contents the fold does not know find nothing (set around a fold that
// is to be read with the registries empty).
var cpLookupMiss bool

func (e *cpEngine) evalLookup(fr *cpFrame, x *ssa.Lookup) cpVal {
	m := e.get(fr, x.X)
	kv := e.get(fr, x.Index)
	if s, isSym := m.(cpStrSym); isSym {
		if i, ok := kv.(cpInt); ok {
			if i.V < 0 || i.V >= s.Len {
				e.fail("panic-instr")
			}
			return cpByteIdent(fmt.Sprintf("%s[%d]", s.ID, s.Off+i.V), s.Off+i.V)
		}
		e.fail("a symbolic string indexed at an unknown position")
	}
	if s, isStr := m.(cpStr); isStr {
		if i, ok := kv.(cpInt); ok {
			if i.V < 0 || i.V >= int64(len(s.V)) {
				e.fail("panic-instr")
			}
			return cpInt{int64(s.V[i.V])}
		}
		return e.fresh("strindex")
	}
	mt, _ := x.X.Type().Underlying().(*types.Map)
	if mo, ok := m.(cpMap); ok && !mo.O.Unknown && mt != nil && e.forkLookups {
		// a small table with string keys looked up under a key the fold does not know: one outcome per entry,
		// each recorded as the comparison key == K that a switch over the names would have made, and one for
		// "not there"
		if ku, isU := kv.(cpUnk); isU && len(mo.O.M) > 0 && len(mo.O.M) <= 8 && ku.Deps == "" {
			var keys []string
			allStr := true
			for k, ent := range mo.O.M {
				switch ent.K.(type) {
				case cpStr, cpInt:
				default:
					allStr = false
				}
				keys = append(keys, k)
			}
			if allStr {
				sort.Strings(keys)
				for _, k := range keys {
					ent := mo.O.M[k]
					var cond cpUnk
					var ks cpVal = ent.K
					if s, isS := ent.K.(cpStr); isS {
						cond = cpUnk{ID: "cmp:" + ku.ID + "==" + s.V}
					} else {
						cond = cpUnk{ID: fmt.Sprintf("cmp:%s==%d", ku.ID, ent.K.(cpInt).V)}
					}
					if e.trackAtoms {
						if e.atomInfo == nil {
							e.atomInfo = map[string]cpAtom{}
						}
						if _, dup := e.atomInfo[cond.ID]; !dup {
							e.atomInfo[cond.ID] = cpAtom{ID: cond.ID, X: ku, Y: ks, Op: token.EQL, Known: true}
						}
					}
					if e.decide(cond) {
						if x.CommaOk {
							return cpTuple{Vs: []cpVal{cpValueCopy(ent.V), cpBool{true}}}
						}
						return cpValueCopy(ent.V)
					}
				}
				if x.CommaOk {
					return cpTuple{Vs: []cpVal{e.zero(mt.Elem()), cpBool{false}}}
				}
				return e.zero(mt.Elem())
			}
		}
	}
	if mo, ok := m.(cpMap); ok && !mo.O.Unknown && mt != nil {
		if k, ok := cpKey(kv); ok {
			if ent, found := mo.O.M[k]; found {
				if x.CommaOk {
					return cpTuple{Vs: []cpVal{cpValueCopy(ent.V), cpBool{true}}}
				}
				return cpValueCopy(ent.V)
			}
			if x.CommaOk {
				return cpTuple{Vs: []cpVal{e.zero(mt.Elem()), cpBool{false}}}
			}
			return e.zero(mt.Elem())
		}
	}
	if _, isNil := m.(cpNil); isNil && mt != nil {
		if x.CommaOk {
			return cpTuple{Vs: []cpVal{e.zero(mt.Elem()), cpBool{false}}}
		}
		return e.zero(mt.Elem())
	}
	if cpLookupMiss && mt != nil {
		// folding with every unknown map (the registries) taken as empty
		if x.CommaOk {
			return cpTuple{Vs: []cpVal{e.zero(mt.Elem()), cpBool{false}}}
		}
		return e.zero(mt.Elem())
	}
	if os.Getenv("AVROCHECK_SMALLFOLD") != "" {
		fmt.Fprintf(os.Stderr, "  lookup unanswered: map=%T %.80v key=%T %v at %s\n", m, m, kv, kv, e.P.pos(x.Pos()))
	}
	// a lookup the fold cannot answer: recorded, so that rules can see which map was consulted with which key
	res := e.resultOf(fr, x, "lookup")
	e.calls = append(e.calls, cpCall{Callee: "maplookup", Args: []cpVal{m, kv}, Result: res, MapT: x.X.Type()})
	return res
}

func (e *cpEngine) mapUpdate(fr *cpFrame, x *ssa.MapUpdate) {
	m := e.get(fr, x.Map)
	mo, ok := m.(cpMap)
	if !ok {
		// a store into a map the fold does not hold (package state): recorded, so that rules can see what was
		// stored under which key
		e.calls = append(e.calls, cpCall{Callee: "mapupdate", Args: []cpVal{m, e.get(fr, x.Key), e.get(fr, x.Value)}, MapT: x.Map.Type()})
		return
	}
	k, okK := cpKey(e.get(fr, x.Key))
	if !okK {
		mo.O.Unknown = true
		return
	}
	mo.O.M[k] = &cpMapEntry{K: e.get(fr, x.Key), V: cpValueCopy(e.get(fr, x.Value))}
}

// builtin evaluates a builtin call; ok=false when it has no model.
func (e *cpEngine) builtin(fr *cpFrame, name string, args []cpVal, typ types.Type) (cpVal, bool) {
	switch name {
	case "len", "cap":
		if len(args) != 1 {
			return nil, false
		}
		switch s := args[0].(type) {
		case cpStr:
			return cpInt{int64(len(s.V))}, true
		case cpStrSym:
			return cpInt{s.Len}, true
		case cpSlice:
			if name == "len" {
				return cpInt{int64(len(s.Elems))}, true
			}
		case cpArr:
			return cpInt{int64(len(s.Elems))}, true
		case cpMap:
			if !s.O.Unknown && name == "len" {
				return cpInt{int64(len(s.O.M))}, true
			}
		case cpNil:
			return cpInt{0}, true
		case cpUnk:
			// the length of "that unknown slice": named, so that a length written ahead of the bytes is recognisable
			if name == "len" {
				return cpUnk{ID: "len(" + s.ID + ")"}, true
			}
		}
	case "append":
		if len(args) != 2 {
			return nil, false
		}
		var base []*cpCell
		switch b := args[0].(type) {
		case cpSlice:
			base = b.Elems
		case cpNil:
		default:
			return nil, false
		}
		var add []*cpCell
		switch a := args[1].(type) {
		case cpSlice:
			add = a.Elems
		case cpNil:
		case cpStr:
			for i := 0; i < len(a.V); i++ {
				add = append(add, &cpCell{V: cpInt{int64(a.V[i])}})
			}
		default:
			return nil, false
		}
		out := cpSlice{T: typ, Elems: make([]*cpCell, 0, len(base)+len(add))}
		out.Elems = append(out.Elems, base...) // the old elements stay shared, as with a real append within capacity
		for _, c := range add {
			out.Elems = append(out.Elems, &cpCell{V: cpValueCopy(c.V), T: c.T})
		}
		return out, true
	case "delete":
		if len(args) == 2 {
			if mo, ok := args[0].(cpMap); ok {
				if k, okK := cpKey(args[1]); okK {
					delete(mo.O.M, k)
				} else {
					mo.O.Unknown = true
				}
			}
			return cpNil{}, true
		}
	case "Add":
		// unsafe.Add(p, n) on an unknown address
		if len(args) == 2 {
			if k, ok := args[1].(cpInt); ok {
				switch a := args[0].(type) {
				case cpUnk:
					return cpLin{ID: a.ID, Mul: 1, Add: k.V}, true
				case cpLin:
					return cpLin{ID: a.ID, Mul: a.Mul, Add: a.Add + k.V}, true
				}
			}
		}
	case "min", "max":
		if len(args) == 2 {
			a, ok1 := args[0].(cpInt)
			b, ok2 := args[1].(cpInt)
			if ok1 && ok2 {
				if (name == "min") == (a.V < b.V) {
					return a, true
				}
				return b, true
			}
		}
	}
	return nil, false
}

// ---- the model of package reflect

// rtypeMethod answers a method of reflect.Type on a modelled type.
func (e *cpEngine) rtypeMethod(rt *cpRType, name string, args []cpVal, resT types.Type) (cpVal, bool) {
	switch name {
	case "Kind":
		return cpInt{rt.Kind}, true
	case "Elem":
		if rt.Elem == nil {
			e.fail("panic-instr")
		}
		return rt.Elem, true
	case "Key":
		if rt.Key == nil {
			e.fail("panic-instr")
		}
		return rt.Key, true
	case "Name":
		return cpStr{rt.Name}, true
	case "PkgPath":
		return cpStr{rt.PkgPath}, true
	case "String":
		return cpStr{rt.ID}, true
	case "NumField":
		if reflect.Kind(rt.Kind) != reflect.Struct {
			e.fail("panic-instr")
		}
		return cpInt{int64(len(rt.Fields))}, true
	case "Size":
		if rt.Size > 0 {
			return cpInt{rt.Size}, true
		}
	case "Len":
		if reflect.Kind(rt.Kind) == reflect.Array {
			return cpInt{4}, true
		}
	case "Field":
		if len(args) == 1 {
			if i, ok := args[0].(cpInt); ok {
				if reflect.Kind(rt.Kind) != reflect.Struct || i.V < 0 || i.V >= int64(len(rt.Fields)) {
					e.fail("panic-instr")
				}
				return e.structField(rt.Fields[i.V], resT), true
			}
		}
	}
	return nil, false
}

func (e *cpEngine) structField(f cpRField, t types.Type) cpVal {
	return cpStructOf(t, map[string]cpVal{
		"Name": cpStr{f.Name}, "PkgPath": cpStr{f.PkgPath}, "Type": f.Type, "Tag": cpStr{f.Tag},
		"Offset": cpInt{f.Offset}, "Anonymous": cpBool{f.Anonymous},
	})
}

// external folds a call that leaves the module when all it needs is known:
// methods of reflect.StructField / StructTag on modelled values and a few
// pure string functions. ok=false: no model (the call is recorded as usual).
func (e *cpEngine) external(q string, args []cpVal, resT types.Type) (cpVal, bool) {
	str := func(i int) (string, bool) {
		if i >= len(args) {
			return "", false
		}
		s, ok := args[i].(cpStr)
		return s.V, ok
	}
	switch q {
	case "encoding/binary.PutVarint", "encoding/binary.PutUvarint":
		// n := PutVarint(buf, x): n is "the length of the varint of x"; buf[:n] (see evalSlice) is then that varint
		if len(args) == 2 {
			if id, ok := cpValID(args[1]); ok {
				if sl, isS := args[0].(cpSlice); isS && len(sl.Elems) > 0 {
					if e.varintBufs == nil {
						e.varintBufs = map[string]*cpCell{}
					}
					tag := "varint"
					if q == "encoding/binary.PutUvarint" {
						tag = "uvarint"
					}
					e.varintBufs[tag+"len:"+id] = sl.Elems[0]
					for _, c := range sl.Elems {
						c.V = e.fresh("varintbyte")
					}
					return cpUnk{ID: tag + "len:" + id}, true
				}
			}
		}
	case "encoding/binary.AppendVarint", "encoding/binary.AppendUvarint":
		if len(args) == 2 {
			if id, ok := cpValID(args[1]); ok {
				tag := "varint:"
				if q == "encoding/binary.AppendUvarint" {
					tag = "uvarint:"
				}
				switch b := args[0].(type) {
				case cpSlice:
					if len(b.Elems) == 0 {
						return cpUnk{ID: tag + id}, true
					}
				case cpNil:
					return cpUnk{ID: tag + id}, true
				}
			}
		}
	case "reflect.TypeOf":
		// the type of a statically typed value: a model built from go/types (kind, name, size, element and field
		// types), one object per type so that two calls for the same type compare equal
		if len(args) == 1 {
			if iv, ok := args[0].(cpIface); ok && iv.T != nil {
				if rt := cpRTypeFromGo(e.P, iv.T, 0); rt != nil {
					return rt, true
				}
			}
		}
	case "(reflect.StructField).IsExported":
		if len(args) == 1 {
			if pp, ok := cpFieldByName(args[0], "PkgPath"); ok && pp != nil {
				if s, isS := pp.(cpStr); isS {
					return cpBool{s.V == ""}, true
				}
			}
		}
	case "(reflect.StructTag).Get":
		if tag, ok1 := str(0); ok1 {
			if key, ok2 := str(1); ok2 {
				return cpStr{reflect.StructTag(tag).Get(key)}, true
			}
		}
	case "(reflect.StructTag).Lookup":
		if tag, ok1 := str(0); ok1 {
			if key, ok2 := str(1); ok2 {
				v, found := reflect.StructTag(tag).Lookup(key)
				return cpTuple{Vs: []cpVal{cpStr{v}, cpBool{found}}}, true
			}
		}
	case "strings.Cut":
		if a, ok1 := str(0); ok1 {
			if b, ok2 := str(1); ok2 {
				x, y, f := strings.Cut(a, b)
				return cpTuple{Vs: []cpVal{cpStr{x}, cpStr{y}, cpBool{f}}}, true
			}
		}
	case "strings.HasPrefix", "strings.HasSuffix", "strings.Contains", "strings.EqualFold":
		if a, ok1 := str(0); ok1 {
			if b, ok2 := str(1); ok2 {
				switch q {
				case "strings.HasPrefix":
					return cpBool{strings.HasPrefix(a, b)}, true
				case "strings.HasSuffix":
					return cpBool{strings.HasSuffix(a, b)}, true
				case "strings.Contains":
					return cpBool{strings.Contains(a, b)}, true
				default:
					return cpBool{strings.EqualFold(a, b)}, true
				}
			}
		}
	case "strings.TrimPrefix", "strings.TrimSuffix":
		if a, ok1 := str(0); ok1 {
			if b, ok2 := str(1); ok2 {
				if q == "strings.TrimPrefix" {
					return cpStr{strings.TrimPrefix(a, b)}, true
				}
				return cpStr{strings.TrimSuffix(a, b)}, true
			}
		}
	case "strings.Index":
		if a, ok1 := str(0); ok1 {
			if b, ok2 := str(1); ok2 {
				return cpInt{int64(strings.Index(a, b))}, true
			}
		}
	case "strings.ToLower", "strings.ToUpper", "strings.TrimSpace":
		if a, ok1 := str(0); ok1 {
			switch q {
			case "strings.ToLower":
				return cpStr{strings.ToLower(a)}, true
			case "strings.ToUpper":
				return cpStr{strings.ToUpper(a)}, true
			default:
				return cpStr{strings.TrimSpace(a)}, true
			}
		}
	case "strings.SplitSeq":
		if a, ok1 := str(0); ok1 {
			if b, ok2 := str(1); ok2 {
				it := cpIterSeq{}
				for _, p := range strings.Split(a, b) {
					it.Vals = append(it.Vals, cpStr{p})
				}
				return it, true
			}
		}
	case "strings.Split":
		if a, ok1 := str(0); ok1 {
			if b, ok2 := str(1); ok2 {
				parts := strings.Split(a, b)
				sl := cpSlice{T: resT}
				for _, p := range parts {
					sl.Elems = append(sl.Elems, &cpCell{V: cpStr{p}})
				}
				return sl, true
			}
		}
	}
	return nil, false
}

// cpRTypeOfKind builds the model of a type of the given kind for the
// specification tables: element int64 (or uint8 for the byte variants).
func cpRTypeOfKind(k reflect.Kind, byteElem bool) *cpRType {
	prim := func(k reflect.Kind) *cpRType {
		sz := map[reflect.Kind]int64{reflect.Bool: 1, reflect.Int8: 1, reflect.Uint8: 1, reflect.Int16: 2, reflect.Uint16: 2, reflect.Int32: 4, reflect.Uint32: 4, reflect.Float32: 4}[k]
		if sz == 0 {
			sz = 8
		}
		return &cpRType{ID: k.String(), Kind: int64(k), Name: k.String(), Size: sz}
	}
	elem := prim(reflect.Int64)
	if byteElem {
		elem = prim(reflect.Uint8)
	}
	t := prim(k)
	switch k {
	case reflect.Ptr:
		t.Elem, t.ID, t.Name = elem, "*"+elem.ID, ""
	case reflect.Slice:
		t.Elem, t.ID, t.Name, t.Size = elem, "[]"+elem.ID, "", 24
	case reflect.Array:
		t.Elem, t.ID, t.Name, t.Size = elem, "[4]"+elem.ID, "", 4*elem.Size
	case reflect.Map:
		t.Elem, t.Key, t.ID, t.Name = elem, prim(reflect.String), "map[string]"+elem.ID, ""
	case reflect.Chan:
		t.Elem, t.ID, t.Name = elem, "chan "+elem.ID, ""
	case reflect.Struct:
		t.ID, t.Name, t.PkgPath = "fx.Rec", "Rec", "example.com/fx-pkg"
	}
	return t
}

var cpGoTypes = map[*Program]map[string]*cpRType{}

// cpRTypeFromGo builds (once per type) the model of the reflect.Type of a go/types type.
func cpRTypeFromGo(P *Program, t types.Type, d int) *cpRType {
	if d > 6 || t == nil {
		return nil
	}
	if _, isTP := types.Unalias(t).(*types.TypeParam); isTP {
		return nil
	}
	m := cpGoTypes[P]
	if m == nil {
		m = map[string]*cpRType{}
		cpGoTypes[P] = m
	}
	key := types.TypeString(t, nil)
	if rt, ok := m[key]; ok {
		return rt
	}
	rt := &cpRType{ID: key, Go: t, Size: P.Sizes.Sizeof(t)}
	m[key] = rt
	if n, ok := types.Unalias(t).(*types.Named); ok {
		rt.Name = n.Obj().Name()
		if n.Obj().Pkg() != nil {
			rt.PkgPath = n.Obj().Pkg().Path()
		}
	}
	switch u := t.Underlying().(type) {
	case *types.Basic:
		k := map[types.BasicKind]reflect.Kind{types.Bool: reflect.Bool, types.Int: reflect.Int, types.Int8: reflect.Int8, types.Int16: reflect.Int16, types.Int32: reflect.Int32, types.Int64: reflect.Int64,
			types.Uint: reflect.Uint, types.Uint8: reflect.Uint8, types.Uint16: reflect.Uint16, types.Uint32: reflect.Uint32, types.Uint64: reflect.Uint64, types.Uintptr: reflect.Uintptr,
			types.Float32: reflect.Float32, types.Float64: reflect.Float64, types.Complex64: reflect.Complex64, types.Complex128: reflect.Complex128, types.String: reflect.String, types.UnsafePointer: reflect.UnsafePointer}[u.Kind()]
		rt.Kind = int64(k)
		if rt.Name == "" {
			rt.Name = u.Name()
		}
	case *types.Pointer:
		rt.Kind, rt.Elem = int64(reflect.Ptr), cpRTypeFromGo(P, u.Elem(), d+1)
	case *types.Slice:
		rt.Kind, rt.Elem = int64(reflect.Slice), cpRTypeFromGo(P, u.Elem(), d+1)
	case *types.Array:
		rt.Kind, rt.Elem = int64(reflect.Array), cpRTypeFromGo(P, u.Elem(), d+1)
	case *types.Map:
		rt.Kind, rt.Elem, rt.Key = int64(reflect.Map), cpRTypeFromGo(P, u.Elem(), d+1), cpRTypeFromGo(P, u.Key(), d+1)
	case *types.Chan:
		rt.Kind, rt.Elem = int64(reflect.Chan), cpRTypeFromGo(P, u.Elem(), d+1)
	case *types.Signature:
		rt.Kind = int64(reflect.Func)
	case *types.Interface:
		rt.Kind = int64(reflect.Interface)
	case *types.Struct:
		rt.Kind = int64(reflect.Struct)
		var fs []*types.Var
		for i := 0; i < u.NumFields(); i++ {
			fs = append(fs, u.Field(i))
		}
		offs := P.Sizes.Offsetsof(fs)
		for i, f := range fs {
			rf := cpRField{Name: f.Name(), Tag: u.Tag(i), Type: cpRTypeFromGo(P, f.Type(), d+1), Offset: offs[i], Anonymous: f.Embedded()}
			if !f.Exported() && f.Pkg() != nil {
				rf.PkgPath = f.Pkg().Path()
			}
			rt.Fields = append(rt.Fields, rf)
		}
	}
	return rt
}

// cpValID names a value for use inside another unknown's name.
func cpValID(v cpVal) (string, bool) {
	switch x := v.(type) {
	case cpUnk:
		return x.ID, true
	case cpInt:
		return fmt.Sprintf("%d", x.V), true
	case cpLin:
		return fmt.Sprintf("%s*%d+%d", x.ID, x.Mul, x.Add), true
	}
	return "", false
}
