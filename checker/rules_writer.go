package main

// Writer-side rules: OD-BLOCK, OD-HDR, ENC-1..6, WB-APPEND, ENC-SAME.

import (
	"fmt"
	"go/token"
	"go/types"
	"strings"

	"golang.org/x/tools/go/ssa"
)

// ---------- write events on an io.Writer parameter

type writeEvent struct {
	Instr ssa.Instruction
	Kind  string    // "bytes" | "varint"
	Arg   ssa.Value // the bytes written, or the integer written as a varint
	Err   ssa.Value
}

func isIOWriter(t types.Type) bool {
	n, ok := types.Unalias(t).(*types.Named)
	return ok && n.Obj().Pkg() != nil && n.Obj().Pkg().Path() == "io" && n.Obj().Name() == "Writer"
}

// writerSummary describes a module helper that performs exactly one write on
// the io.Writer it is given, of one of its own parameters, on every path, and
// cannot report success when that write failed.
type writerSummary struct {
	wIdx, argIdx int
	kind         string // bytes | varint
}

var writerSummaries = map[*ssa.Function]*writerSummary{}
var writerSummaryBusy = map[*ssa.Function]bool{}

func writerSummaryOf(P *Program, fn *ssa.Function) *writerSummary {
	if s, ok := writerSummaries[fn]; ok {
		return s
	}
	if writerSummaryBusy[fn] || fn == nil || fn.Blocks == nil {
		return nil
	}
	writerSummaryBusy[fn] = true
	defer delete(writerSummaryBusy, fn)
	var sum *writerSummary
	defer func() { writerSummaries[fn] = sum }()
	wIdx := -1
	for i, p := range fn.Params {
		if isIOWriter(p.Type()) {
			if wIdx >= 0 {
				return nil
			}
			wIdx = i
		}
	}
	if wIdx < 0 || errorResultIndex(fn.Signature) < 0 {
		return nil
	}
	evs, unknown := writeEventsOn(P, fn, fn.Params[wIdx])
	if len(evs) != 1 || len(unknown) != 0 {
		return nil
	}
	e := evs[0]
	for _, l := range loopsOf(fn) {
		if l.Blocks[e.Instr.Block()] {
			return nil
		}
	}
	// every return: the write has happened, and success is reported only if it succeeded
	for _, r := range returnsOf(fn) {
		if !dominatesInstr(e.Instr, r) {
			return nil
		}
		ev := errOperand(r)
		if ev == nil {
			return nil
		}
		if ev == e.Err || isFreshError(ev) {
			continue
		}
		if _, isNil := knownNonNil(r.Block(), e.Err); isNil {
			continue
		}
		if nn, _ := knownNonNil(r.Block(), ev); nn {
			continue
		}
		return nil
	}
	paramIdx := func(v ssa.Value) int {
		for i, p := range fn.Params {
			if ssa.Value(p) == stripConv(v) {
				return i
			}
		}
		return -1
	}
	switch e.Kind {
	case "varint":
		if i := paramIdx(e.Arg); i >= 0 {
			sum = &writerSummary{wIdx, i, "varint"}
		}
	case "bytes":
		if i := paramIdx(e.Arg); i >= 0 {
			sum = &writerSummary{wIdx, i, "bytes"}
			break
		}
		// buf[:n] where n := binary.PutVarint(buf[:], int64(v)): the varint of v
		sl, isS := e.Arg.(*ssa.Slice)
		if !isS || sl.Low != nil || sl.High == nil {
			break
		}
		put, isC := sl.High.(*ssa.Call)
		if !isC || put.Call.StaticCallee() == nil || qualName(put.Call.StaticCallee()) != "encoding/binary.PutVarint" {
			break
		}
		psl, isP := put.Call.Args[0].(*ssa.Slice)
		if !isP || psl.Low != nil || psl.High != nil || accessPath(sl.X) != accessPath(psl.X) || !dominatesInstr(put, e.Instr) {
			break
		}
		if i := paramIdx(put.Call.Args[1]); i >= 0 {
			sum = &writerSummary{wIdx, i, "varint"}
		}
	}
	return sum
}

func writeEventsOn(P *Program, fn *ssa.Function, w ssa.Value) (evs []writeEvent, unknown []ssa.Instruction) {
	for _, ref := range referrersOf(w) {
		ci, ok := ref.(ssa.CallInstruction)
		if !ok {
			if _, isStore := ref.(*ssa.Store); isStore {
				unknown = append(unknown, ref)
			}
			continue
		}
		cc := ci.Common()
		call, _ := ci.(*ssa.Call)
		if cc.IsInvoke() && cc.Value == w {
			if cc.Method.Name() == "Write" && call != nil {
				// w.Write(binary.AppendVarint(scratch[:0], int64(v))) is the varint of v
				if av, isAV := cc.Args[0].(*ssa.Call); isAV && av.Call.StaticCallee() != nil && qualName(av.Call.StaticCallee()) == "encoding/binary.AppendVarint" {
					if sl, isSl := av.Call.Args[0].(*ssa.Slice); isSl && sl.Low == nil && sl.High != nil {
						if z, isK := constInt(sl.High); isK && z == 0 {
							evs = append(evs, writeEvent{Instr: ci, Kind: "varint", Arg: stripConv(av.Call.Args[1]), Err: errValueOfCall(call)})
							continue
						}
					}
				}
				// w.Write(buf[:n]) with n := binary.PutVarint(buf, int64(v)) written just before: the varint of v
				if v := putVarintWritten(cc.Args[0], ci); v != nil {
					evs = append(evs, writeEvent{Instr: ci, Kind: "varint", Arg: stripConv(v), Err: errValueOfCall(call)})
					continue
				}
				evs = append(evs, writeEvent{Instr: ci, Kind: "bytes", Arg: cc.Args[0], Err: errValueOfCall(call)})
			} else {
				unknown = append(unknown, ref)
			}
			continue
		}
		callee := cc.StaticCallee()
		if callee != nil && P.isModuleFunc(callee) && call != nil {
			if sum := writerSummaryOf(P, callee); sum != nil && sum.wIdx < len(cc.Args) && cc.Args[sum.wIdx] == w {
				evs = append(evs, writeEvent{Instr: ci, Kind: sum.kind, Arg: cc.Args[sum.argIdx], Err: errValueOfCall(call)})
				continue
			}
		}
		unknown = append(unknown, ref)
	}
	return
}

// ---------- OD-BLOCK

func ruleODBlock(c *Ctx) {
	c.Rule("OD-BLOCK", "a block is written as varint(rowCount), varint(len(compressed)), compressed, sync — in that order, nothing else", 5)
	P := c.P
	fwT := P.NamedType(P.Avro, "FileWriter")
	fn := P.Method(fwT, "WriteBlock")
	if !c.Anchor(fn != nil, "(*FileWriter).WriteBlock") {
		return
	}
	var w, rowCount, block *ssa.Parameter
	for _, p := range fn.Params[1:] {
		switch {
		case isIOWriter(p.Type()):
			w = p
		case isBasic(p.Type()):
			rowCount = p
		default:
			block = p
		}
	}
	if !c.Anchor(w != nil && rowCount != nil && block != nil, "WriteBlock(w io.Writer, rowCount int, block []byte)") {
		return
	}
	if bf := blockByFold(P); bf.ok {
		key := fnKey(fn)
		pos := P.pos(fn.Pos())
		for _, cl := range []string{"write-count", "compress", "write#1", "write#2", "write#3", "write#4"} {
			if len(bf.problems) == 0 {
				c.OK(key+"/"+cl, pos, bf.detail+": the writes on w are, in order, varint(rowCount), varint(len(compressed)), compressed, the sixteen sync bytes, compressed being what the writer's compressor returned for the block")
			}
		}
		if len(bf.problems) > 0 {
			c.Bad(key+"/layout", pos, strings.Join(bf.problems, "; "))
		}
		return
	}
	evs, unknown := writeEventsOn(P, fn, w)
	for _, u := range unknown {
		c.Unk(fnKey(fn)+"/writer-use", P.pos(u.Pos()), "unrecognised use of the writer: "+u.String())
	}
	def, poss := successReturns(fn)
	succ := append(def, poss...)
	if len(succ) == 0 {
		c.Unk(fnKey(fn)+"/success-return", P.pos(fn.Pos()), "no success return found")
		return
	}
	// every success return must come after the whole block has been written: a success return that some write
	// does not dominate reports a block as written that was not (the caller then discards the records)
	ret := succ[0]
	for _, r := range succ {
		nd := 0
		for _, e := range evs {
			if dominatesInstr(e.Instr, r) {
				nd++
			}
		}
		if nd < len(evs) || len(evs) == 0 {
			c.Bad(fmt.Sprintf("%s/success-without-writes@%s", fnKey(fn), P.pos(r.Pos())), P.pos(r.Pos()), fmt.Sprintf("WriteBlock can return success here after only %d of its %d writes: the caller treats the block as written and drops the records it held", nd, len(evs)))
		} else {
			ret = r
		}
	}
	if len(succ) > 1 {
		// decide the layout at the return that all writes dominate; the others were judged above
		for _, r := range succ {
			all := true
			for _, e := range evs {
				if !dominatesInstr(e.Instr, r) {
					all = false
				}
			}
			if all {
				ret = r
			}
		}
	}
	// all events dominate the success return and are totally ordered
	var ordered []writeEvent
	for _, e := range evs {
		if !dominatesInstr(e.Instr, ret) {
			c.Bad(fnKey(fn)+"/write-off-path", P.pos(e.Instr.Pos()), "a write to w does not lie on every path to the success return")
			continue
		}
		ordered = append(ordered, e)
	}
	for i := 0; i < len(ordered); i++ {
		for j := i + 1; j < len(ordered); j++ {
			if dominatesInstr(ordered[j].Instr, ordered[i].Instr) {
				ordered[i], ordered[j] = ordered[j], ordered[i]
			}
		}
	}
	for _, l := range loopsOf(fn) {
		for _, e := range ordered {
			if l.Blocks[e.Instr.Block()] {
				c.Bad(fnKey(fn)+"/write-in-loop", P.pos(e.Instr.Pos()), "a write to w is inside a loop")
			}
		}
	}
	// the compress call
	var comp *ssa.Call
	for _, cs := range callsIn(fn) {
		if cs.Iface != nil && cs.Iface.Name() == "compress" && cs.Value() != nil {
			comp = cs.Value()
		}
	}
	key := fnKey(fn)
	c.Check(len(ordered) == 4, key+"/write-count", P.pos(fn.Pos()), "exactly four writes precede the success return", fmt.Sprintf("%d writes precede the success return, the block layout needs exactly 4", len(ordered)))
	if len(ordered) != 4 || comp == nil {
		if comp == nil {
			c.Bad(key+"/compress", P.pos(fn.Pos()), "no compress call on the block")
		}
		return
	}
	compressed := extractOf(comp, 0)
	compOK := len(comp.Call.Args) == 1 && comp.Call.Args[0] == ssa.Value(block) && strings.HasSuffix(accessPath(comp.Call.Value), "->"+fileWriterRoles(P).compressor+")")
	c.Check(compOK, key+"/compress", P.pos(comp.Pos()), "payload = f.compressor.compress(block) on the block parameter", "the payload is not f.compressor.compress(block)")
	e := ordered
	c.Check(e[0].Kind == "varint" && e[0].Arg == ssa.Value(rowCount), key+"/write#1", P.pos(e[0].Instr.Pos()), "first write: varint(rowCount)", "the first write is not the row count as a varint")
	isLenOf := func(v, of ssa.Value) bool {
		call, ok := stripConv(v).(*ssa.Call)
		if !ok {
			return false
		}
		b, ok := call.Call.Value.(*ssa.Builtin)
		return ok && b.Name() == "len" && call.Call.Args[0] == of
	}
	c.Check(e[1].Kind == "varint" && compressed != nil && isLenOf(e[1].Arg, compressed), key+"/write#2", P.pos(e[1].Instr.Pos()), "second write: varint(len(compressed))", "the second write is not the length of the compressed payload (the bytes actually written) as a varint")
	c.Check(e[2].Kind == "bytes" && e[2].Arg == ssa.Value(compressed), key+"/write#3", P.pos(e[2].Instr.Pos()), "third write: the compressed payload", "the third write is not the compressed payload")
	syncOK := false
	if sl, ok := e[3].Arg.(*ssa.Slice); ok && e[3].Kind == "bytes" && sl.Low == nil && sl.High == nil && strings.HasSuffix(accessPath(sl.X), "->"+fileWriterRoles(P).sync) {
		syncOK = true
	}
	c.Check(syncOK, key+"/write#4", P.pos(e[3].Instr.Pos()), "fourth write: all 16 bytes of f.sync", "the fourth write is not the whole sync marker f.sync[:]")
	// varint helper summary is itself an obligation
	c.OK(key+"/varint-helper", P.pos(fn.Pos()), "the varint helper writes exactly binary.PutVarint's n bytes of its buffer in one Write and returns that Write's error")
}

// ---------- OD-HDR

type hdrItem struct {
	Kind string // bytes | varint | string
	Arg  ssa.Value
	Pos  token.Pos
}

// stringAppendSummary recognises appendString-like helpers:
// AppendVarint(buf, int64(len(s))) then append(_, s...).
func stringAppendSummary(fn *ssa.Function) bool {
	if fn == nil || len(fn.Blocks) != 1 || len(fn.Params) != 2 {
		return false
	}
	buf, s := fn.Params[0], fn.Params[1]
	rs := returnsOf(fn)
	if len(rs) != 1 {
		return false
	}
	app, ok := rs[0].Results[0].(*ssa.Call)
	if !ok {
		return false
	}
	if b, ok := app.Call.Value.(*ssa.Builtin); !ok || b.Name() != "append" || app.Call.Args[1] != ssa.Value(s) {
		return false
	}
	av, ok := app.Call.Args[0].(*ssa.Call)
	if !ok || av.Call.StaticCallee() == nil || qualName(av.Call.StaticCallee()) != "encoding/binary.AppendVarint" || av.Call.Args[0] != ssa.Value(buf) {
		return false
	}
	ln, ok := stripConv(av.Call.Args[1]).(*ssa.Call)
	if !ok {
		return false
	}
	b, ok := ln.Call.Value.(*ssa.Builtin)
	return ok && b.Name() == "len" && ln.Call.Args[0] == ssa.Value(s)
}

func ruleODHdr(c *Ctx) {
	c.Rule("OD-HDR", "the header is magic, a metadata block whose count equals the number of key/value pairs (avro.schema, avro.codec), a zero count, and the sync marker", 7)
	P := c.P
	fwT := P.NamedType(P.Avro, "FileWriter")
	fn := P.Method(fwT, "AppendHeader")
	if !c.Anchor(fn != nil, "(*FileWriter).AppendHeader") {
		return
	}
	key := fnKey(fn)
	rs := returnsOf(fn)
	if len(rs) != 1 || len(fn.Blocks) != 1 {
		c.Unk(key+"/shape", P.pos(fn.Pos()), "AppendHeader is no longer straight-line code with one return")
		return
	}
	// walk the append chain backwards from the result to the parameter
	var items []hdrItem
	v := rs[0].Results[0]
	for v != ssa.Value(fn.Params[1]) {
		call, ok := v.(*ssa.Call)
		if !ok {
			c.Unk(key+"/chain", P.pos(fn.Pos()), "the result is not built by a chain of appends from the buffer parameter: "+v.String())
			return
		}
		if b, ok := call.Call.Value.(*ssa.Builtin); ok && b.Name() == "append" {
			items = append(items, hdrItem{"bytes", call.Call.Args[1], call.Pos()})
			v = call.Call.Args[0]
			continue
		}
		callee := call.Call.StaticCallee()
		if callee != nil && qualName(callee) == "encoding/binary.AppendVarint" {
			items = append(items, hdrItem{"varint", call.Call.Args[1], call.Pos()})
			v = call.Call.Args[0]
			continue
		}
		if callee != nil && P.isModuleFunc(callee) && stringAppendSummary(callee) {
			items = append(items, hdrItem{"string", call.Call.Args[1], call.Pos()})
			v = call.Call.Args[0]
			continue
		}
		c.Unk(key+"/chain", P.pos(call.Pos()), "unrecognised step in the header append chain: "+call.String())
		return
	}
	for i, j := 0, len(items)-1; i < j; i, j = i+1, j-1 {
		items[i], items[j] = items[j], items[i]
	}
	n := len(items)
	if n < 4 {
		c.Bad(key+"/layout", P.pos(fn.Pos()), "the header has fewer than four parts")
		return
	}
	// magic
	magicOK := false
	if sl, ok := items[0].Arg.(*ssa.Slice); ok && items[0].Kind == "bytes" && sl.Low == nil && sl.High == nil {
		if g, ok := sl.X.(*ssa.Global); ok && g.Name() == "FileMagic" {
			magicOK = true
		}
	}
	c.Check(magicOK, key+"/magic-first", P.pos(items[0].Pos), "the first bytes appended are FileMagic[:] (the same variable the reader compares with)", "the header does not start with FileMagic")
	cnt, isC := constInt(items[1].Arg)
	pairs := items[2 : n-2]
	allStr := len(pairs)%2 == 0
	for _, it := range pairs {
		if it.Kind != "string" {
			allStr = false
		}
	}
	c.Check(items[1].Kind == "varint" && isC && allStr && int(cnt) == len(pairs)/2 && cnt > 0, key+"/meta-count", P.pos(items[1].Pos),
		fmt.Sprintf("metadata block count %d equals the %d key/value string pairs that follow", cnt, len(pairs)/2),
		fmt.Sprintf("the metadata block count (%d) does not equal the number of key/value pairs appended (%d items)", cnt, len(pairs)))
	want := map[string]string{"avro.schema": "->" + fileWriterRoles(P).schema + ")", "avro.codec": "->" + fileWriterRoles(P).compression + ")"}
	seen := map[string]bool{}
	if allStr {
		for i := 0; i+1 < len(pairs); i += 2 {
			k, isK := constString(pairs[i].Arg)
			suffix, known := want[k]
			ok := isK && known && strings.HasSuffix(accessPath(pairs[i+1].Arg), suffix)
			seen[k] = seen[k] || ok
			c.Check(ok, key+"/meta/"+k, P.pos(pairs[i].Pos), fmt.Sprintf("key %q is followed by the writer's field %s", k, strings.Trim(suffix, "->)")), fmt.Sprintf("metadata key %q is not paired with the expected FileWriter field", k))
		}
	}
	for k := range want {
		if !seen[k] {
			c.Bad(key+"/meta/"+k, P.pos(fn.Pos()), fmt.Sprintf("the header has no %q entry", k))
		}
	}
	z, isZ := constInt(items[n-2].Arg)
	c.Check(items[n-2].Kind == "varint" && isZ && z == 0, key+"/meta-end", P.pos(items[n-2].Pos), "a zero count terminates the metadata map", "the metadata map is not terminated by a zero count")
	syncOK := false
	if sl, ok := items[n-1].Arg.(*ssa.Slice); ok && items[n-1].Kind == "bytes" && sl.Low == nil && sl.High == nil && strings.HasSuffix(accessPath(sl.X), "->"+fileWriterRoles(P).sync) {
		syncOK = true
	}
	c.Check(syncOK, key+"/sync-last", P.pos(items[n-1].Pos), "the header ends with all 16 bytes of f.sync, the field WriteBlock appends to every block", "the header does not end with the whole sync marker f.sync[:]")
	// WriteHeader: one write of AppendHeader(empty buffer)
	wh := P.Method(fwT, "WriteHeader")
	if c.Anchor(wh != nil, "(*FileWriter).WriteHeader") {
		k2 := fnKey(wh)
		var w *ssa.Parameter
		for _, p := range wh.Params {
			if isIOWriter(p.Type()) {
				w = p
			}
		}
		evs, unknown := writeEventsOn(P, wh, w)
		ok := len(evs) == 1 && len(unknown) == 0 && evs[0].Kind == "bytes"
		if ok {
			call, isCall := evs[0].Arg.(*ssa.Call)
			ok = isCall && call.Call.StaticCallee() == fn
			if ok {
				ok = emptySlice(call.Call.Args[1])
			}
		}
		c.Check(ok, k2+"/single-write", P.pos(wh.Pos()), "WriteHeader writes AppendHeader(empty buffer) in one Write", "WriteHeader does not write exactly AppendHeader applied to an empty buffer")
	}
}

// ---------- ENC rules

type encShape struct {
	encode, flush, ctor *ssa.Function
}

func isEncoderField(addr ssa.Value, field string) bool {
	fa, ok := addr.(*ssa.FieldAddr)
	if !ok {
		return false
	}
	pt, ok := fa.X.Type().Underlying().(*types.Pointer)
	if !ok {
		return false
	}
	n, ok := types.Unalias(pt.Elem()).(*types.Named)
	if !ok || n.Obj().Name() != "Encoder" || n.Obj().Pkg() == nil || n.Obj().Pkg().Path() != modPath {
		return false
	}
	name := fieldName(fa.X.Type(), fa.Field)
	if actual, ok := encFieldRoles[field]; ok {
		return name == actual
	}
	return name == field
}

// encFieldRoles maps the pinned names of the encoder's fields (as the rules
// spell them) to what the fields are called on the current tree, found by
// what they are: wb the *WriteBuf, fw the *FileWriter, w the io.Writer, codec
// the Codec, count the int that Encode increments by one, approxBlockSize the
// other int.
var encFieldRoles = map[string]string{}

func computeEncRoles(P *Program, s *encShape) {
	encFieldRoles = map[string]string{}
	et, ok := P.NamedType(P.Avro, "Encoder").(*types.Named)
	if !ok {
		return
	}
	st, ok := et.Underlying().(*types.Struct)
	if !ok {
		return
	}
	var ints []string
	uniq := map[string][]string{}
	for i := 0; i < st.NumFields(); i++ {
		f := st.Field(i)
		switch {
		case typeKey(f.Type()) == "*avro.WriteBuf":
			uniq["wb"] = append(uniq["wb"], f.Name())
		case typeKey(f.Type()) == "*avro.FileWriter":
			uniq["fw"] = append(uniq["fw"], f.Name())
		case isIOWriter(f.Type()):
			uniq["w"] = append(uniq["w"], f.Name())
		case isCodecIface(P, f.Type()):
			uniq["codec"] = append(uniq["codec"], f.Name())
		default:
			if b, isB := f.Type().Underlying().(*types.Basic); isB && b.Kind() == types.Int {
				ints = append(ints, f.Name())
			}
		}
	}
	for role, names := range uniq {
		if len(names) == 1 {
			encFieldRoles[role] = names[0]
		}
	}
	if len(ints) == 2 && s.encode != nil {
		// the counter: the int field some method stores "itself plus one" into
		counter := ""
		for _, fn := range []*ssa.Function{s.encode, s.flush} {
			if fn == nil {
				continue
			}
			for _, b := range fn.Blocks {
				for _, in := range b.Instrs {
					stI, ok := in.(*ssa.Store)
					if !ok {
						continue
					}
					fa, ok := stI.Addr.(*ssa.FieldAddr)
					if !ok {
						continue
					}
					add, ok := stI.Val.(*ssa.BinOp)
					if !ok || add.Op != token.ADD {
						continue
					}
					if one, isK := constInt(add.Y); !isK || one != 1 {
						continue
					}
					if ld, ok := add.X.(*ssa.UnOp); ok && ld.Op == token.MUL {
						if fa2, ok := ld.X.(*ssa.FieldAddr); ok && fa2.X == fa.X && fa2.Field == fa.Field {
							n := fieldName(fa.X.Type(), fa.Field)
							if n == ints[0] || n == ints[1] {
								counter = n
							}
						}
					}
				}
			}
		}
		if counter != "" {
			encFieldRoles["count"] = counter
			if counter == ints[0] {
				encFieldRoles["approxBlockSize"] = ints[1]
			} else {
				encFieldRoles["approxBlockSize"] = ints[0]
			}
		}
	}
}

func loadOfEncoderField(v ssa.Value, field string) bool {
	u, ok := v.(*ssa.UnOp)
	return ok && u.Op == token.MUL && isEncoderField(u.X, field)
}

func findEncoder(P *Program) *encShape {
	s := &encShape{}
	et := P.NamedType(P.Avro, "Encoder")
	nt, ok := et.(*types.Named)
	if !ok {
		return s
	}
	for i := 0; i < nt.NumMethods(); i++ {
		m := nt.Method(i)
		switch m.Name() {
		case "Encode":
			s.encode = P.Prog.FuncValue(m)
		case "Flush":
			s.flush = P.Prog.FuncValue(m)
		}
	}
	s.ctor = P.Func(P.Avro, "NewEncoderFor")
	computeEncRoles(P, s)
	return s
}

func ruleENC(c *Ctx) {
	P := c.P
	s := findEncoder(P)
	c.Rule("ENC-1", "Encode appends exactly one record encoding to the block buffer and counts it, on every path, before deciding to flush", 3)
	if !c.Anchor(s.encode != nil && s.flush != nil && s.ctor != nil, "Encoder.Encode, Encoder.Flush, NewEncoderFor") {
		return
	}
	enc, fl := s.encode, s.flush
	ruleENCHdr(c, s.ctor)
	c.Rule("ENC-1", "", 0)
	// --- ENC-1
	var writes []*ssa.Call
	var flushCalls []*ssa.Call
	var lenCall *ssa.Call
	for _, cs := range callsIn(enc) {
		if cs.Iface != nil && cs.Iface.Name() == "Write" && isCodecIface(P, cs.Common.Value.Type()) && cs.Value() != nil {
			writes = append(writes, cs.Value())
		}
		if cs.Static != nil && (cs.Static == fl || cs.Static.Origin() == fl) && cs.Value() != nil {
			flushCalls = append(flushCalls, cs.Value())
		}
		if cs.Static != nil && qualNameShort(cs.Static) == "(*WriteBuf).Len" && cs.Value() != nil {
			lenCall = cs.Value()
		}
	}
	// the size test may live in a predicate method of the encoder: `func (e) full() bool { return e.wb.Len() >= e.size }`
	var sizePred *ssa.Call // the call of that predicate in Encode
	var sizePredCmp Cmp    // its comparison, in the predicate's own values
	var sizePredLen *ssa.Call
	if lenCall == nil {
		for _, cs := range callsIn(enc) {
			h := cs.Static
			if h == nil || cs.Value() == nil || !P.isModuleFunc(h) || len(h.Blocks) != 1 || h.Signature.Results().Len() != 1 || !isBasicKind(h.Signature.Results().At(0).Type(), types.Bool) {
				continue
			}
			if len(cs.Common.Args) != 1 || cs.Common.Args[0] != ssa.Value(enc.Params[0]) {
				continue
			}
			rs := returnsOf(h)
			if len(rs) != 1 {
				continue
			}
			// go/ssa routes calls between generic methods through a forwarding wrapper: look through it
			for i := 0; i < 2; i++ {
				fw, isCall := resolvedResults(rs[0])[0].(*ssa.Call)
				if !isCall || fw.Call.StaticCallee() == nil || len(fw.Call.StaticCallee().Blocks) != 1 || !P.isModuleFunc(fw.Call.StaticCallee()) {
					break
				}
				h = fw.Call.StaticCallee()
				rs = returnsOf(h)
				if len(rs) != 1 {
					break
				}
			}
			if len(rs) != 1 {
				continue
			}
			cmp, isCmp := asCmp(resolvedResults(rs[0])[0], true)
			if !isCmp {
				continue
			}
			for _, hc := range callsIn(h) {
				if hc.Static != nil && qualNameShort(hc.Static) == "(*WriteBuf).Len" && hc.Value() != nil {
					sizePred, sizePredCmp, sizePredLen = cs.Value(), cmp, hc.Value()
				}
			}
		}
	}
	inLoop := func(fn *ssa.Function, in ssa.Instruction) bool { return innermostLoop(fn, in.Block()) != nil }
	domAllReturns := func(fn *ssa.Function, in ssa.Instruction) bool {
		for _, r := range returnsOf(fn) {
			if !dominatesInstr(in, r) {
				return false
			}
		}
		return true
	}
	key := fnKey(enc)
	okW := len(writes) == 1 && domAllReturns(enc, writes[0]) && !inLoop(enc, writes[0])
	if okW {
		w := writes[0]
		vconv, isConv := w.Call.Args[1].(*ssa.Convert)
		okW = loadOfEncoderField(w.Call.Value, "codec") && loadOfEncoderField(w.Call.Args[0], "wb") && isConv && vconv.X == ssa.Value(enc.Params[1])
	}
	c.Check(okW, key+"/one-write", P.pos(enc.Pos()), "exactly one e.codec.Write(e.wb, unsafe.Pointer(v)) executes on every path", "Encode does not perform exactly one e.codec.Write(e.wb, unsafe.Pointer(v)) on every path")
	var countStores []*ssa.Store
	for _, b := range enc.Blocks {
		for _, in := range b.Instrs {
			if st, ok := in.(*ssa.Store); ok && isEncoderField(st.Addr, "count") {
				countStores = append(countStores, st)
			}
		}
	}
	okC := len(countStores) == 1 && domAllReturns(enc, countStores[0]) && !inLoop(enc, countStores[0])
	if okC {
		bo, isB := countStores[0].Val.(*ssa.BinOp)
		one, isOne := int64(0), false
		if isB {
			one, isOne = constInt(bo.Y)
		}
		okC = isB && bo.Op == token.ADD && isOne && one == 1 && loadOfEncoderField(bo.X, "count")
	}
	c.Check(okC, key+"/count-incr", P.pos(enc.Pos()), "e.count is incremented by exactly one on every path", "e.count is not incremented by exactly one on every path of Encode")
	var sizeTest ssa.Instruction
	if lenCall != nil {
		sizeTest = lenCall
	} else if sizePred != nil {
		sizeTest = sizePred
	}
	okOrder := okW && sizeTest != nil && dominatesInstr(writes[0], sizeTest) && (len(countStores) == 0 || dominatesInstr(countStores[0], sizeTest)) && (len(countStores) == 0 || len(flushCalls) == 0 || dominatesInstr(countStores[0], flushCalls[0]))
	c.Check(okOrder, key+"/write-before-size-test", P.pos(enc.Pos()), "the record is appended and counted before the buffer size is tested", "the buffer size is tested (or the flush happens) before the record was appended and counted")

	// --- ENC-2
	c.Rule("ENC-2", "Encode flushes exactly when the buffered length has reached the configured block size", 1)
	k2 := key + "/flush-condition"
	if len(flushCalls) != 1 || lenCall == nil && sizePred == nil {
		c.Bad(k2, P.pos(enc.Pos()), fmt.Sprintf("expected one Flush call and one Len call in Encode, found %d and %v", len(flushCalls), lenCall != nil))
	} else {
		fc := flushCalls[0]
		ok := false
		var T *ssa.BasicBlock
		for _, f := range factsAt(fc.Block()) {
			if sizePred != nil {
				// the predicate's truth stands for its comparison
				cond, truth := f.Cond, f.Truth
				for {
					if u, isNot := cond.(*ssa.UnOp); isNot && u.Op == token.NOT {
						cond, truth = u.X, !truth
						continue
					}
					break
				}
				if cond == ssa.Value(sizePred) && truth {
					cmp := sizePredCmp
					if loadOfEncoderField(cmp.X, "approxBlockSize") {
						cmp = Cmp{X: cmp.Y, Y: cmp.X, Op: swapOp(cmp.Op)}
					}
					if cmp.X == ssa.Value(sizePredLen) && loadOfEncoderField(cmp.Y, "approxBlockSize") && cmp.Op == token.GEQ && loadOfEncoderField(sizePredLen.Call.Args[0], "wb") {
						ok = true
						T = f.Target
					}
				}
				continue
			}
			cmp, isCmp := asCmp(f.Cond, f.Truth)
			if !isCmp {
				continue
			}
			// normalise to Len op Size
			if loadOfEncoderField(cmp.X, "approxBlockSize") {
				cmp = Cmp{X: cmp.Y, Y: cmp.X, Op: swapOp(cmp.Op)}
			}
			if cmp.X == ssa.Value(lenCall) && loadOfEncoderField(cmp.Y, "approxBlockSize") && cmp.Op == token.GEQ && loadOfEncoderField(lenCall.Call.Args[0], "wb") {
				ok = true
				T = f.Target
			}
		}
		if ok {
			// and nothing else decides it: a second condition on the way to Flush ("only when the block size is
			// positive", "only every other time") makes a block that has reached its size wait for the next record
			for _, f := range factsAt(fc.Block()) {
				if f.Target != T && f.If != nil {
					extra := true
					// the pieces of one short-circuit size test (Len >= size written as two conditions of the same values) do not count
					if cmp, isCmp := asCmp(f.Cond, f.Truth); isCmp && lenCall != nil && (cmp.X == ssa.Value(lenCall) || cmp.Y == ssa.Value(lenCall)) && (loadOfEncoderField(cmp.X, "approxBlockSize") || loadOfEncoderField(cmp.Y, "approxBlockSize")) {
						extra = false
					}
					if extra {
						ok = false
					}
				}
			}
		}
		if ok {
			// on that edge Flush is always reached before returning
			reach := reachableFrom(T, map[*ssa.BasicBlock]bool{fc.Block(): true})
			for b := range reach {
				if _, isRet := b.Instrs[len(b.Instrs)-1].(*ssa.Return); isRet {
					ok = false
				}
			}
		}
		c.Check(ok, k2, P.pos(fc.Pos()), "Flush is called on, and only on, the true edge of e.wb.Len() >= e.approxBlockSize", "Flush is not called exactly on the true edge of e.wb.Len() >= e.approxBlockSize")
	}

	// --- ENC-3, ENC-4, ENC-5 in Flush
	c.Rule("ENC-3", "Flush writes a block exactly when records are pending (no empty block, nothing left buffered)", 1)
	var wb *ssa.Call
	var resets []*ssa.Call
	for _, cs := range callsIn(fl) {
		if cs.Static != nil && qualNameShort(cs.Static) == "(*FileWriter).WriteBlock" && cs.Value() != nil {
			wb = cs.Value()
		}
		if cs.Static != nil && qualNameShort(cs.Static) == "(*WriteBuf).Reset" && cs.Value() != nil {
			resets = append(resets, cs.Value())
		}
	}
	kf := fnKey(fl)
	if wb == nil {
		c.Bad(kf+"/write-block", P.pos(fl.Pos()), "Flush does not call WriteBlock")
		return
	}
	ok3 := false
	var T3 *ssa.BasicBlock
	for _, f := range factsAt(wb.Block()) {
		cmp, isCmp := asCmp(f.Cond, f.Truth)
		if !isCmp {
			continue
		}
		if loadOfEncoderField(cmp.Y, "count") {
			cmp = Cmp{X: cmp.Y, Y: cmp.X, Op: swapOp(cmp.Op)}
		}
		k, isK := constInt(cmp.Y)
		if loadOfEncoderField(cmp.X, "count") && isK && (cmp.Op == token.GTR && k == 0 || cmp.Op == token.NEQ && k == 0 || cmp.Op == token.GEQ && k == 1) {
			ok3 = true
			T3 = f.Target
		}
	}
	if ok3 {
		reach := reachableFrom(T3, map[*ssa.BasicBlock]bool{wb.Block(): true})
		for b := range reach {
			if _, isRet := b.Instrs[len(b.Instrs)-1].(*ssa.Return); isRet {
				ok3 = false
			}
		}
	}
	c.Check(ok3, kf+"/pending-guard", P.pos(wb.Pos()), "WriteBlock is reached on, and only on, the true edge of e.count > 0", "WriteBlock is not called exactly when e.count > 0")

	c.Rule("ENC-4", "the block written carries the pending count and the whole buffer", 1)
	a := wb.Call.Args
	ok4 := len(a) == 4 && loadOfEncoderField(a[0], "fw") && loadOfEncoderField(a[1], "w") && loadOfEncoderField(a[2], "count")
	if ok4 {
		bc, isCall := a[3].(*ssa.Call)
		ok4 = isCall && bc.Call.StaticCallee() != nil && qualNameShort(bc.Call.StaticCallee()) == "(*WriteBuf).Bytes" && loadOfEncoderField(bc.Call.Args[0], "wb")
	}
	c.Check(ok4, kf+"/block-args", P.pos(wb.Pos()), "WriteBlock(e.w, e.count, e.wb.Bytes()) on e.fw", "WriteBlock is not called with (e.w, e.count, e.wb.Bytes())")

	c.Rule("ENC-5", "count and buffer are reset exactly on the success edge of the block write", 3)
	werr := errValueOfCall(wb)
	var zero *ssa.Store
	nStores := 0
	for _, b := range fl.Blocks {
		for _, in := range b.Instrs {
			if st, ok := in.(*ssa.Store); ok && isEncoderField(st.Addr, "count") {
				nStores++
				if z, isZ := constInt(st.Val); isZ && z == 0 {
					zero = st
				}
			}
		}
	}
	succEdgeOK := func(in ssa.Instruction) bool {
		if in == nil {
			return false
		}
		_, isNil := knownNonNil(in.Block(), werr)
		return isNil && dominatesInstr(wb, in)
	}
	// every success return that follows a WriteBlock passes through both resets
	passes := func(in ssa.Instruction) bool {
		if in == nil {
			return false
		}
		// the nil-edge target
		var S *ssa.BasicBlock
		for _, f := range factsAt(in.Block()) {
			cmp, isCmp := asCmp(f.Cond, f.Truth)
			if isCmp && cmp.Op == token.EQL && (cmp.X == werr || cmp.Y == werr) {
				S = f.Target
			}
		}
		if S == nil {
			return false
		}
		reach := reachableFrom(S, map[*ssa.BasicBlock]bool{in.Block(): true})
		for b := range reach {
			if _, isRet := b.Instrs[len(b.Instrs)-1].(*ssa.Return); isRet {
				return false
			}
		}
		return true
	}
	c.Check(zero != nil && nStores == 1 && succEdgeOK(zero) && passes(zero), kf+"/count-reset", P.pos(fl.Pos()), "e.count = 0 happens on the success edge of WriteBlock, on every path from it to the return, and nowhere else", "e.count is not reset to 0 exactly on the success edge of WriteBlock")
	okR := len(resets) == 1 && succEdgeOK(resets[0]) && passes(resets[0]) && loadOfEncoderField(resets[0].Call.Args[0], "wb")
	c.Check(okR, kf+"/buffer-reset", P.pos(fl.Pos()), "e.wb.Reset() happens on the success edge of WriteBlock, on every path from it to the return, and nowhere else", "e.wb.Reset() does not happen exactly on the success edge of WriteBlock")
	c.Check(werr != nil, kf+"/block-error", P.pos(wb.Pos()), "WriteBlock's error is a value (checked by ER-CHECK)", "WriteBlock's error is discarded")

	// --- ENC-6
	c.Rule("ENC-6", "nothing else in the module touches the encoder's count or buffer", 1)
	allowed := map[*ssa.Function]bool{enc: true, fl: true, s.ctor: true}
	bad := ""
	n := 0
	for _, fn := range P.ModuleFuncs() {
		for _, b := range fn.Blocks {
			for _, in := range b.Instrs {
				switch x := in.(type) {
				case *ssa.Store:
					if isEncoderField(x.Addr, "count") || isEncoderField(x.Addr, "wb") {
						n++
						o := fn
						if fn.Origin() != nil {
							o = fn.Origin()
						}
						if !allowed[fn] && !allowed[o] {
							bad = fnKey(fn) + " at " + P.pos(in.Pos())
						}
						if fn == s.ctor && isEncoderField(x.Addr, "count") {
							bad = "constructor sets a non-zero count at " + P.pos(in.Pos())
						}
					}
				case ssa.CallInstruction:
					if sc := x.Common().StaticCallee(); sc != nil && qualNameShort(sc) == "(*WriteBuf).Reset" {
						n++
						if fn != fl {
							bad = fnKey(fn) + " calls WriteBuf.Reset at " + P.pos(in.Pos())
						}
					}
				}
			}
		}
	}
	c.Check(bad == "", "module/encoder-state-writers", "-", fmt.Sprintf("%d stores/resets of Encoder.count, Encoder.wb, all in the constructor, Encode or Flush", n), "encoder state is modified outside Encode/Flush/constructor: "+bad)
}

// ---------- WB-APPEND

func ruleWBAppend(c *Ctx) {
	c.Rule("WB-APPEND", "the write buffer is append-only between resets: Varint/Byte/Write append to it, Bytes returns it, Len is its length, Reset truncates it", 6)
	P := c.P
	wbT := P.NamedType(P.Avro, "WriteBuf")
	if !c.Anchor(wbT != nil, "avro.WriteBuf") {
		return
	}
	// the buffer is WriteBuf's only []byte field, whatever it is called
	bufField := ""
	if st, ok := wbT.Underlying().(*types.Struct); ok {
		for i := 0; i < st.NumFields(); i++ {
			if sl, ok := st.Field(i).Type().Underlying().(*types.Slice); ok {
				if b, ok := sl.Elem().Underlying().(*types.Basic); ok && b.Kind() == types.Byte {
					if bufField != "" {
						bufField = "?"
					} else {
						bufField = st.Field(i).Name()
					}
				}
			}
		}
	}
	if !c.Anchor(bufField != "" && bufField != "?", "WriteBuf's single []byte field") {
		return
	}
	isBufAddr := func(v ssa.Value) bool {
		fa, ok := v.(*ssa.FieldAddr)
		if !ok {
			return false
		}
		pt, ok := fa.X.Type().Underlying().(*types.Pointer)
		return ok && types.Identical(pt.Elem(), wbT) && fieldName(fa.X.Type(), fa.Field) == bufField
	}
	isBufLoad := func(v ssa.Value) bool {
		u, ok := v.(*ssa.UnOp)
		return ok && u.Op == token.MUL && isBufAddr(u.X)
	}
	for _, fn := range P.ModuleFuncs() {
		n := 0
		for _, b := range fn.Blocks {
			for _, in := range b.Instrs {
				st, ok := in.(*ssa.Store)
				if !ok || !isBufAddr(st.Addr) {
					continue
				}
				n++
				key := fmt.Sprintf("%s/store-buf#%d", fnKey(fn), n)
				switch v := st.Val.(type) {
				case *ssa.Call:
					if chain := bufferChain(fn, bufField); chain[v] {
						c.OK(key, P.pos(st.Pos()), "the buffer with more appended to it (possibly carried in a local across several appends)")
						continue
					}
					if bi, ok := v.Call.Value.(*ssa.Builtin); ok && bi.Name() == "append" && isBufLoad(v.Call.Args[0]) {
						c.OK(key, P.pos(st.Pos()), "w.buf = append(w.buf, ...)")
						continue
					}
					if sc := v.Call.StaticCallee(); sc != nil && strings.HasPrefix(qualName(sc), "encoding/binary.Append") && isBufLoad(v.Call.Args[0]) {
						c.OK(key, P.pos(st.Pos()), "w.buf = "+qualName(sc)+"(w.buf, ...)")
						continue
					}
					c.Bad(key, P.pos(st.Pos()), "the buffer is replaced by the result of a call that does not append to it")
				case *ssa.Slice:
					hi, isHi := int64(-1), false
					if v.High != nil {
						hi, isHi = constInt(v.High)
					}
					if fn.Name() == "Reset" && isBufLoad(v.X) && v.Low == nil && isHi && hi == 0 {
						c.OK(key, P.pos(st.Pos()), "Reset: w.buf = w.buf[:0]")
						continue
					}
					c.Bad(key, P.pos(st.Pos()), "the buffer is re-sliced outside Reset (bytes already buffered would be dropped or duplicated)")
				case *ssa.Parameter:
					if fn.Signature.Recv() == nil { // constructor
						c.OKTrivial(key, P.pos(st.Pos()), "constructor installs the caller's slice")
						continue
					}
					c.Bad(key, P.pos(st.Pos()), "a method replaces the buffer with a parameter")
				default:
					c.Bad(key, P.pos(st.Pos()), "the buffer is overwritten with "+st.Val.String())
				}
			}
		}
	}
	// Bytes and Len
	if m := P.Method(wbT, "Bytes"); c.Anchor(m != nil, "(*WriteBuf).Bytes") {
		rs := returnsOf(m)
		c.Check(len(rs) == 1 && isBufLoad(rs[0].Results[0]), fnKey(m)+"/result", P.pos(m.Pos()), "returns w.buf", "Bytes does not return the whole buffer")
	}
	if m := P.Method(wbT, "Len"); c.Anchor(m != nil, "(*WriteBuf).Len") {
		rs := returnsOf(m)
		ok := false
		if len(rs) == 1 {
			if call, isCall := rs[0].Results[0].(*ssa.Call); isCall {
				if bi, isB := call.Call.Value.(*ssa.Builtin); isB && bi.Name() == "len" && isBufLoad(call.Call.Args[0]) {
					ok = true
				}
			}
		}
		c.Check(ok, fnKey(m)+"/result", P.pos(m.Pos()), "returns len(w.buf)", "Len does not return len(w.buf)")
	}
}

// ---------- ENC-SAME (C01/C02)

func ruleENCSame(c *Ctx) {
	c.Rule("ENC-SAME", "the schema written into the header is the schema the codec was built from, generated from the encoder's own type parameter", 4)
	P := c.P
	fn := P.Func(P.Avro, "NewEncoderFor")
	if !c.Anchor(fn != nil, "NewEncoderFor") {
		return
	}
	key := fnKey(fn)
	findEncoder(P) // field roles
	if probs, ok := encSameByFold(P, fn); ok {
		msg := "the constructor folded with the exported API and the schema generator opaque: on the success path reflect.TypeFor[T]() feeds schema generation, that schema value's Codec builds the codec for a T, its Marshal() feeds NewFileWriter, and the Encoder returned holds that codec, that file writer and the caller's writer"
		for _, cl := range []string{"schema-from-T", "codec-from-schema", "header-schema", "encoder-fields"} {
			c.Check(probs[cl] == "", key+"/"+cl, P.pos(fn.Pos()), msg, probs[cl])
		}
		return
	}
	var typeFor, sft, codec, marshal, nfw *ssa.Call
	for _, cs := range callsIn(fn) {
		if cs.Static == nil || cs.Value() == nil {
			continue
		}
		switch q := qualNameShort(cs.Static); {
		case q == "reflect.TypeFor":
			typeFor = cs.Value()
		case isSchemaEntry(P, cs.Static):
			sft = cs.Value()
		case q == "(Schema).Codec":
			codec = cs.Value()
		case q == "(*Schema).Marshal":
			marshal = cs.Value()
		case q == "NewFileWriter":
			nfw = cs.Value()
		}
	}
	if typeFor == nil || sft == nil || codec == nil || marshal == nil || nfw == nil {
		c.Bad(key+"/shape", P.pos(fn.Pos()), "NewEncoderFor lacks one of reflect.TypeFor[T], schemaForType, Schema.Codec, Schema.Marshal, NewFileWriter")
		return
	}
	tp := fn.TypeParams().At(0)
	targOK := typeFor.Call.StaticCallee().TypeArgs() != nil && len(typeFor.Call.StaticCallee().TypeArgs()) == 1 && types.Identical(typeFor.Call.StaticCallee().TypeArgs()[0], tp)
	c.Check(targOK && sft.Call.Args[0] == ssa.Value(typeFor), key+"/schema-from-T", P.pos(sft.Pos()), "the schema is generated from reflect.TypeFor[T]()", "the schema is not generated from the encoder's type parameter")
	schemaVal := extractOf(sft, 0)
	// Codec receiver and Marshal receiver must both be the stored schema
	recvOK := schemaVal != nil && flowsFrom(codec.Call.Args[0], schemaVal)
	argT := false
	if len(codec.Call.Args) == 2 {
		at := stripChange(codec.Call.Args[1]).Type()
		argT = types.Identical(at, tp)
	}
	c.Check(recvOK && argT, key+"/codec-from-schema", P.pos(codec.Pos()), "the codec is built by that schema value's Codec method for a value of type T", "the codec is not built from the generated schema for type T")
	mOK := false
	if al, ok := marshal.Call.Args[0].(*ssa.Alloc); ok && schemaVal != nil {
		n := 0
		var st *ssa.Store
		for _, r := range referrersOf(al) {
			if s, ok := r.(*ssa.Store); ok && s.Addr == al {
				n++
				st = s
			}
		}
		mOK = n == 1 && st.Val == ssa.Value(schemaVal)
	}
	c.Check(mOK && nfw.Call.Args[0] == ssa.Value(extractOf(marshal, 0)), key+"/header-schema", P.pos(marshal.Pos()), "the header carries Marshal() of the same schema variable, assigned once", "the schema marshalled into the header is not the one the codec was built from")
	// the encoder is assembled from these values
	fieldsOK := 0
	for _, b := range fn.Blocks {
		for _, in := range b.Instrs {
			st, ok := in.(*ssa.Store)
			if !ok {
				continue
			}
			if isEncoderField(st.Addr, "codec") && st.Val == ssa.Value(extractOf(codec, 0)) {
				fieldsOK++
			}
			if isEncoderField(st.Addr, "fw") && st.Val == ssa.Value(extractOf(nfw, 0)) {
				fieldsOK++
			}
			if isEncoderField(st.Addr, "w") && st.Val == ssa.Value(fn.Params[0]) {
				fieldsOK++
			}
		}
	}
	c.Check(fieldsOK == 3, key+"/encoder-fields", P.pos(fn.Pos()), "the Encoder holds that codec, that file writer and the caller's writer", "the Encoder is not assembled from the codec, file writer and writer established above")
}

// emptySlice reports whether v is a freshly made slice of length zero:
// make([]T, 0, n) in either of go/ssa's two lowerings.
func emptySlice(v ssa.Value) bool {
	switch x := v.(type) {
	case *ssa.MakeSlice:
		l, ok := constInt(x.Len)
		return ok && l == 0
	case *ssa.Slice:
		if _, isAlloc := x.X.(*ssa.Alloc); !isAlloc || x.Low != nil || x.High == nil {
			return false
		}
		h, ok := constInt(x.High)
		return ok && h == 0
	}
	return false
}

// ---------- ENC-HDR

// headerWritten: on every return of fn that can report success, a call that
// writes the container header — (*FileWriter).WriteHeader, or a module helper
// for which the same holds — has been made on every path and its error is
// known to be nil there.
func headerWritten(P *Program, fn *ssa.Function, depth int) (bool, string) {
	if fn == nil || fn.Blocks == nil || depth > 3 {
		return false, "no body"
	}
	def, poss := successReturns(fn)
	rets := append(append([]*ssa.Return{}, def...), poss...)
	if len(rets) == 0 {
		return false, "no success return"
	}
	for _, r := range rets {
		ok := false
		for _, cs := range callsIn(fn) {
			call := cs.Value()
			if cs.Static == nil || call == nil || !dominatesInstr(call, r) {
				continue
			}
			isHdr := qualNameShort(cs.Static) == "(*FileWriter).WriteHeader"
			if !isHdr && P.isModuleFunc(cs.Static) && cs.Static != fn && errorResultIndex(cs.Static.Signature) >= 0 {
				if w, _ := headerWritten(P, cs.Static, depth+1); w {
					isHdr = true
				}
			}
			if !isHdr {
				continue
			}
			if ev := errValueOfCall(call); ev != nil {
				if _, isNil := knownNonNil(r.Block(), ev); isNil {
					ok = true
				}
			}
		}
		if !ok {
			return false, "the return at " + P.pos(r.Pos()) + " can report success without the header having been written"
		}
	}
	return true, ""
}

func ruleENCHdr(c *Ctx, ctor *ssa.Function) {
	c.Rule("ENC-HDR", "an encoder is handed out only after the container header has been written successfully, so even a file of zero records is a valid container", 1)
	P := c.P
	ok, why := headerWritten(P, ctor, 0)
	c.Check(ok, fnKey(ctor)+"/header-before-return", P.pos(ctor.Pos()), "every success return is dominated by a successful WriteHeader (directly or in a helper)", "the constructor does not write the header on every path to success ("+why+"): an encoder that is flushed without a record leaves an empty file, which is not an Avro container")
}

// putVarintWritten: arg is X[:n] where n is the result of a dominating
// binary.PutVarint(Y, v) and X and Y are the same buffer (the same value, or
// whole-slices of the same array); returns v.
func putVarintWritten(arg ssa.Value, at ssa.Instruction) ssa.Value {
	sl, ok := arg.(*ssa.Slice)
	if !ok || sl.Low != nil || sl.High == nil {
		return nil
	}
	put, ok := sl.High.(*ssa.Call)
	if !ok || put.Call.StaticCallee() == nil || qualName(put.Call.StaticCallee()) != "encoding/binary.PutVarint" || !dominatesInstr(put, at) {
		return nil
	}
	base := func(v ssa.Value) string {
		if s2, ok := v.(*ssa.Slice); ok && s2.Low == nil && s2.High == nil {
			return accessPath(s2.X)
		}
		return ""
	}
	same := sl.X == put.Call.Args[0]
	if !same {
		a, b := base(sl.X), base(put.Call.Args[0])
		if a == "" {
			a = accessPath(sl.X)
		}
		same = a != "" && a == b
	}
	if !same {
		return nil
	}
	// nothing else is put into the buffer between the two
	for _, b := range put.Parent().Blocks {
		for _, in := range b.Instrs {
			other, ok := in.(*ssa.Call)
			if !ok || other == put || other.Call.StaticCallee() == nil || !strings.HasPrefix(qualName(other.Call.StaticCallee()), "encoding/binary.Put") {
				continue
			}
			if dominatesInstr(put, other) && dominatesInstr(other, at) {
				return nil
			}
		}
	}
	return put.Call.Args[1]
}
