package main

// E-AL: alias/ownership rules (C10): AL-BUF, AL-BLOCK, AL-STR, AL-BUMP,
// AL-CLR, AL-CLOSE.

import (
	"fmt"
	"go/token"
	"go/types"
	"sort"
	"strings"

	"golang.org/x/tools/go/ssa"
)

// external functions that may be handed a view of the block buffer because
// they only read it while they run.
var nonRetaining = map[string]bool{"fmt.Errorf": true, "fmt.Sprintf": true, "errors.New": true, "bytes.Equal": true, "strings.Cut": true,
	// copies: what they return shares nothing with the argument
	"strings.Clone": true, "bytes.Clone": true,
	// predicates and searches: what they return is a number or a truth value
	"strings.HasPrefix": true, "strings.HasSuffix": true, "strings.Contains": true, "strings.Index": true, "strings.IndexByte": true, "strings.EqualFold": true, "strings.Compare": true,
	"bytes.HasPrefix": true, "bytes.HasSuffix": true, "bytes.Contains": true, "bytes.Index": true, "bytes.IndexByte": true, "bytes.Compare": true,
	"unicode/utf8.Valid": true, "unicode/utf8.ValidString": true, "unicode/utf8.RuneCount": true, "unicode/utf8.RuneCountInString": true}

type alEnv struct {
	P *Program
	// memo: does fn return an alias of its i-th parameter?
	retAlias map[string]bool
	retIdx   map[string]map[int]bool
	busy     map[string]bool
	reports  map[string]string // key -> violation text ("" = fine)
	pos      map[string]string
}

type alResult struct {
	returnsAlias bool
	results      map[int]bool // result positions an alias is returned in
}

// analyse propagates "aliases the block buffer" from the seed values inside
// fn and reports where an alias is retained.
func (e *alEnv) analyse(fn *ssa.Function, seeds []ssa.Value, why string) alResult {
	P := e.P
	tainted := map[ssa.Value]bool{}
	holder := map[*ssa.Alloc]bool{} // locals holding an alias
	var work []ssa.Value
	mark := func(v ssa.Value) {
		if v != nil && !tainted[v] && canHoldView(v.Type()) {
			tainted[v] = true
			work = append(work, v)
		}
	}
	for _, s := range seeds {
		mark(s)
	}
	res := alResult{}
	keys := callKeys(fn)
	report := func(key, pos, msg string) {
		if old, ok := e.reports[key]; !ok || old == "" {
			e.reports[key] = msg
			e.pos[key] = pos
		}
	}
	n := 0
	for len(work) > 0 {
		v := work[len(work)-1]
		work = work[:len(work)-1]
		for _, r := range referrersOf(v) {
			switch x := r.(type) {
			case *ssa.DebugRef, *ssa.Index, *ssa.IndexAddr, *ssa.Lookup, *ssa.Range, *ssa.Next:
				// reading an element is fine (IndexAddr of a slice yields an element address: stores through it write the buffer)
				if ia, ok := r.(*ssa.IndexAddr); ok {
					for _, rr := range referrersOf(ia) {
						if st, ok := rr.(*ssa.Store); ok && st.Addr == ssa.Value(ia) {
							n++
							report(fmt.Sprintf("%s/alias-write#%d", fnKey(fn), n), P.pos(st.Pos()), "the block buffer is written through a view of it")
						}
					}
				}
			case *ssa.Slice:
				mark(x)
			case *ssa.Phi:
				mark(x)
			case *ssa.ChangeType:
				mark(x)
			case *ssa.MakeInterface:
				mark(x) // boxed for a variadic call
			case *ssa.Convert:
				// string(b) / []byte(s) copy; pointer conversions keep the alias
				_, fromSlice := x.X.Type().Underlying().(*types.Slice)
				tb, toBasic := x.Type().Underlying().(*types.Basic)
				if fromSlice && toBasic && tb.Info()&types.IsString != 0 {
					continue // string(b) copies
				}
				if fb, ok := x.X.Type().Underlying().(*types.Basic); ok && fb.Info()&types.IsString != 0 {
					if _, toSlice := x.Type().Underlying().(*types.Slice); toSlice {
						continue // []byte(s) copies
					}
				}
				mark(x)
			case *ssa.UnOp:
				if x.Op == token.MUL {
					mark(x) // load through a pointer to alias-holding storage
				}
			case *ssa.BinOp, *ssa.If:
			case *ssa.Extract:
				// one result of a module function: only the results the callee lets an alias of its argument out through
				if call, isCall := x.Tuple.(*ssa.Call); isCall {
					if callee := call.Call.StaticCallee(); callee != nil && P.isModuleFunc(callee) && callee.Blocks != nil {
						out := false
						for i, a := range call.Call.Args {
							if tainted[a] && i < len(callee.Params) && e.paramAliasResults(callee, i)[x.Index] {
								out = true
							}
						}
						if !out {
							continue
						}
					}
				}
				mark(x)
			case *ssa.Store:
				if x.Val == v {
					root, _ := rootOfAddr(x.Addr)
					if a, ok := root.(*ssa.Alloc); ok && !escapes(a) {
						if !holder[a] {
							holder[a] = true
							// values read back out of the local (directly, through element/field
							// addresses or pointer conversions) are aliases again
							var walkAddr func(addr ssa.Value, d int)
							walkAddr = func(addr ssa.Value, d int) {
								if d > 5 {
									return
								}
								for _, rr := range referrersOf(addr) {
									switch y := rr.(type) {
									case *ssa.UnOp:
										if y.Op == token.MUL {
											mark(y)
										}
									case *ssa.FieldAddr, *ssa.IndexAddr, *ssa.Convert:
										walkAddr(y.(ssa.Value), d+1)
									case *ssa.Slice:
										mark(y)
									}
								}
							}
							walkAddr(a, 0)
						}
						continue
					}
					n++
					report(fmt.Sprintf("%s/alias-store#%d", fnKey(fn), n), P.pos(x.Pos()), "a view of the block buffer ("+why+") is stored where it outlives the block: the decoded value changes when the buffer is reused for the next block")
				}
			case *ssa.MapUpdate:
				if x.Key == v || x.Value == v {
					n++
					report(fmt.Sprintf("%s/alias-map#%d", fnKey(fn), n), P.pos(x.Pos()), "a view of the block buffer is stored in a map")
				}
			case *ssa.Return:
				res.returnsAlias = true
				if res.results == nil {
					res.results = map[int]bool{}
				}
				for i, rv := range x.Results {
					if rv == v {
						res.results[i] = true
					}
				}
			case ssa.CallInstruction:
				cc := x.Common()
				if bi, ok := cc.Value.(*ssa.Builtin); ok {
					switch bi.Name() {
					case "len", "cap":
					case "copy":
						if cc.Args[0] == v {
							n++
							report(fmt.Sprintf("%s/alias-write#%d", fnKey(fn), n), P.pos(r.Pos()), "copy writes into a view of the block buffer")
						}
					case "append":
						if cc.Args[0] == v {
							n++
							report(fmt.Sprintf("%s/alias-write#%d", fnKey(fn), n), P.pos(r.Pos()), "append extends a view of the block buffer in place (and its result keeps the alias)")
						}
						// as the variadic source its bytes are copied
					case "Slice", "String", "StringData", "SliceData", "Add":
						if call, ok := r.(*ssa.Call); ok {
							mark(call)
						}
					}
					continue
				}
				callee := cc.StaticCallee()
				if cc.IsInvoke() || callee == nil {
					n++
					report(keys[x]+"/alias-arg", P.pos(r.Pos()), "a view of the block buffer is passed to a dynamic call that may retain it")
					continue
				}
				if !P.isModuleFunc(callee) || callee.Blocks == nil {
					if nonRetaining[qualName(callee)] {
						continue
					}
					n++
					report(keys[x]+"/alias-arg", P.pos(r.Pos()), "a view of the block buffer is passed to "+qualName(callee)+", which is not known to use it only while it runs")
					continue
				}
				for i, a := range cc.Args {
					if a != v || i >= len(callee.Params) {
						continue
					}
					if e.paramAliasReturned(callee, i) {
						if call, ok := r.(*ssa.Call); ok {
							mark(call)
						}
					}
				}
			default:
				n++
				report(fmt.Sprintf("%s/alias-use#%d", fnKey(fn), n), P.pos(r.Pos()), "unrecognised use of a view of the block buffer: "+r.String())
			}
		}
	}
	return res
}

// escapes: the local's address is stored somewhere, returned, or passed to a
// call other than as a read-only conversion (kept simple: heap locals whose
// address is only converted and loaded are fine).
func escapes(a *ssa.Alloc) bool {
	var walk func(v ssa.Value, d int) bool
	walk = func(v ssa.Value, d int) bool {
		if d > 4 {
			return true
		}
		for _, r := range referrersOf(v) {
			switch x := r.(type) {
			case *ssa.Store:
				if x.Val == v {
					return true
				}
			case *ssa.Return:
				return true
			case *ssa.Convert:
				if walk(x, d+1) {
					return true
				}
			case *ssa.FieldAddr:
				if walk(x, d+1) {
					return true
				}
			case *ssa.IndexAddr:
				if walk(x, d+1) {
					return true
				}
			case *ssa.Slice:
				// slicing a local array for a variadic call
				for _, rr := range referrersOf(x) {
					if ci, ok := rr.(ssa.CallInstruction); ok {
						if sc := ci.Common().StaticCallee(); sc != nil && nonRetaining[qualName(sc)] {
							continue
						}
					}
					return true
				}
			case ssa.CallInstruction:
				return true
			case *ssa.MakeInterface:
				return true
			}
		}
		return false
	}
	return walk(a, 0)
}

func (e *alEnv) paramAliasReturned(fn *ssa.Function, i int) bool {
	key := fmt.Sprintf("%s#%d", fnKey(fn), i)
	if v, ok := e.retAlias[key]; ok {
		return v
	}
	if e.busy[key] {
		return false
	}
	e.busy[key] = true
	defer delete(e.busy, key)
	r := e.analyse(fn, []ssa.Value{fn.Params[i]}, "parameter "+fn.Params[i].Name()+" of "+fnKey(fn))
	e.retAlias[key] = r.returnsAlias
	if e.retIdx == nil {
		e.retIdx = map[string]map[int]bool{}
	}
	e.retIdx[key] = r.results
	return r.returnsAlias
}

// paramAliasResults: the result positions through which fn returns an alias of its i-th parameter.
func (e *alEnv) paramAliasResults(fn *ssa.Function, i int) map[int]bool {
	if !e.paramAliasReturned(fn, i) {
		return nil
	}
	return e.retIdx[fmt.Sprintf("%s#%d", fnKey(fn), i)]
}

// canHoldView: a value of this type can carry a reference to the buffer's bytes.
func canHoldView(t types.Type) bool {
	switch u := t.Underlying().(type) {
	case *types.Basic:
		return u.Info()&types.IsString != 0 || u.Kind() == types.UnsafePointer || u.Kind() == types.UntypedNil || u.Kind() == types.Uintptr
	case *types.Struct:
		for i := 0; i < u.NumFields(); i++ {
			if canHoldView(u.Field(i).Type()) {
				return true
			}
		}
		return false
	case *types.Array:
		return canHoldView(u.Elem())
	case *types.Tuple:
		for i := 0; i < u.Len(); i++ {
			if canHoldView(u.At(i).Type()) {
				return true
			}
		}
		return false
	}
	return true
}

func ruleALBuf(c *Ctx) {
	c.Rule("AL-BUF", "no view of the block buffer is retained in a decoded value, a resource bank or a return value: bytes are copied out before the buffer is reused", 4)
	P := c.P
	e := &alEnv{P: P, retAlias: map[string]bool{}, busy: map[string]bool{}, reports: map[string]string{}, pos: map[string]string{}}
	rbT := P.NamedType(P.Avro, "ReadBuf")
	next := P.Method(rbT, "Next")
	if !c.Anchor(next != nil, "(*ReadBuf).Next") {
		return
	}
	bufF := uniqueFieldWhere(rbT, func(t types.Type) bool {
		sl, ok := t.Underlying().(*types.Slice)
		return ok && isBasicKind(sl.Elem(), types.Byte)
	})
	// functions whose result is a view of the block buffer: Next by contract; unexported helpers that hand a view
	// back are sources for their callers in turn (computed to a fixpoint)
	viewFns := map[*ssa.Function]bool{next: true}
	nConsumers := 0
	for round := 0; round < 4; round++ {
		grew := false
		nConsumers = 0
		e.reports, e.pos = map[string]string{}, map[string]string{}
		var oks []func()
		for _, fn := range P.ModuleFuncs() {
			var seeds []ssa.Value
			for _, b := range fn.Blocks {
				for _, in := range b.Instrs {
					switch x := in.(type) {
					case *ssa.Call:
						if sc := x.Call.StaticCallee(); sc != nil && viewFns[sc] {
							if ex := extractOf(x, 0); ex != nil {
								seeds = append(seeds, ex)
							} else if sc.Signature.Results().Len() == 1 {
								seeds = append(seeds, x)
							}
						}
					case *ssa.Slice:
						// d.buf[a:b] inside ReadBuf's own methods
						if ld, ok := x.X.(*ssa.UnOp); ok && ld.Op == token.MUL {
							if fa, ok := ld.X.(*ssa.FieldAddr); ok && fieldName(fa.X.Type(), fa.Field) == bufF && typeKey(fa.X.Type()) == "*avro.ReadBuf" {
								seeds = append(seeds, x)
							}
						}
					}
				}
			}
			if len(seeds) == 0 {
				continue
			}
			nConsumers++
			before := len(e.reports)
			res := e.analyse(fn, seeds, "obtained in "+fnKey(fn))
			key := fnKey(fn) + "/block-buffer-views"
			// returning the view is Next's own contract; an unexported helper may pass one on to callers that are
			// judged in turn; nobody else may
			if res.returnsAlias && !viewFns[fn] {
				if fn.Object() != nil && !fn.Object().Exported() && fn.Parent() == nil {
					viewFns[fn] = true
					grew = true
				} else {
					e.reports[key+"/returned"] = "a view of the block buffer is returned to the caller"
					e.pos[key+"/returned"] = P.pos(fn.Pos())
				}
			}
			if len(e.reports) == before {
				fn, key, n := fn, key, len(seeds)
				oks = append(oks, func() {
					c.OK(key, P.pos(fn.Pos()), fmt.Sprintf("%d view(s) of the block buffer: only indexed, copied from, converted by copy or handed to functions that do the same", n))
				})
			}
		}
		if !grew {
			for _, f := range oks {
				f()
			}
			break
		}
	}
	var ks []string
	for k := range e.reports {
		ks = append(ks, k)
	}
	sort.Strings(ks)
	for _, k := range ks {
		if e.reports[k] != "" {
			c.Bad(k, e.pos[k], e.reports[k])
		}
	}
	c.Check(nConsumers >= 4, "module/consumers-of-block-buffer", "-", fmt.Sprintf("%d functions take views of the block buffer", nConsumers), "fewer functions than expected take views of the block buffer: the rule may have lost its sources")
}

func ruleALBlock(c *Ctx) {
	c.Rule("AL-BLOCK", "the decompressed block (a buffer the decompressor reuses) is only ever installed as the read buffer", 1)
	P := c.P
	// every call of the compression interface's decompress in the module, wherever the container reader keeps it
	var calls []*ssa.Call
	for _, fn := range P.ModuleFuncs() {
		for _, cs := range callsIn(fn) {
			if cs.Iface != nil && cs.Iface.Name() == "decompress" && cs.Value() != nil {
				calls = append(calls, cs.Value())
			}
		}
	}
	if !c.Anchor(len(calls) > 0, "a call of the compression interface's decompress") {
		return
	}
	// what the result may be used for: the argument of ReadBuf.Reset, a store to the read buffer's buf field,
	// or being handed back to a caller that does one of these
	var usesOK func(v ssa.Value, fn *ssa.Function, d int) string
	usesOK = func(v ssa.Value, fn *ssa.Function, d int) string {
		if v == nil {
			return "the result is not used"
		}
		for _, r := range referrersOf(v) {
			switch x := r.(type) {
			case *ssa.DebugRef:
			case *ssa.Call:
				g := x.Call.StaticCallee()
				if g != nil && qualNameShort(g) == "(*ReadBuf).Reset" && len(x.Call.Args) == 2 && x.Call.Args[1] == v {
					continue
				}
				return "it is handed to " + x.Call.String()
			case *ssa.Store:
				if fa, ok := x.Addr.(*ssa.FieldAddr); ok && x.Val == v && typeKey(derefType(fa.X.Type())) == "avro.ReadBuf" && fieldName(fa.X.Type(), fa.Field) == rfAnchors(P).fBuf {
					continue
				}
				// kept in a field of one of the module's own unexported structs (a block reader's state): every load
				// of that field is held to the same
				if fa, ok := x.Addr.(*ssa.FieldAddr); ok && x.Val == v && d < 2 && P0isModule(pkgPathOf(derefType(fa.X.Type()))) {
					fk := typeKey(derefType(fa.X.Type())) + "." + fieldName(fa.X.Type(), fa.Field)
					why := ""
					for _, g := range P.ModuleFuncs() {
						for _, b := range g.Blocks {
							for _, in := range b.Instrs {
								fa2, ok := in.(*ssa.FieldAddr)
								if !ok || typeKey(derefType(fa2.X.Type()))+"."+fieldName(fa2.X.Type(), fa2.Field) != fk {
									continue
								}
								for _, r2 := range referrersOf(fa2) {
									if ld, isLd := r2.(*ssa.UnOp); isLd && ld.Op == token.MUL && why == "" {
										why = usesOK(ld, g, d+1)
									}
								}
							}
						}
					}
					if why != "" {
						return why
					}
					continue
				}
				return "it is stored by " + x.String()
			case *ssa.Phi:
				if why := usesOK(x, fn, d); why != "" {
					return why
				}
			case *ssa.Return:
				if d >= 2 {
					return "it is handed back through more than two helpers"
				}
				idx := -1
				for i, rv := range x.Results {
					if rv == v {
						idx = i
					}
				}
				for _, site := range callersOf(P, fn) {
					call, isCall := site.(*ssa.Call)
					if !isCall {
						return "a helper handing it back is called by go or defer"
					}
					var got ssa.Value = call
					if fn.Signature.Results().Len() > 1 {
						got = extractOf(call, idx)
						if got == nil {
							continue
						}
					}
					if why := usesOK(got, call.Parent(), d+1); why != "" {
						return why
					}
				}
			default:
				return "it is used by " + r.String()
			}
		}
		return ""
	}
	for i, call := range calls {
		fn := call.Parent()
		var un ssa.Value = extractOf(call, 0)
		why := usesOK(un, fn, 0)
		c.Check(why == "", fmt.Sprintf("%s/uncompressed-uses#%d", fnKey(fn), i+1), P.pos(call.Pos()), "the decompressor's result is used only as the read buffer (ReadBuf.Reset, or a store to its buf field)", "the decompressed block is used other than as the read buffer ("+why+"): it is overwritten when the next block is decompressed")
	}
}

func ruleALStr(c *Ctx) {
	c.Rule("AL-STR", "interned strings view the bank's own append-only byte store: the input bytes are copied, earlier bytes are never rewritten, and only Close truncates", 4)
	P := c.P
	rbT := P.NamedType(P.Avro, "ResourceBank")
	ts := P.Method(rbT, "ToString")
	if !c.Anchor(ts != nil, "(*ResourceBank).ToString") {
		return
	}
	isSData := func(v ssa.Value) bool {
		fa, ok := v.(*ssa.FieldAddr)
		return ok && fieldName(fa.X.Type(), fa.Field) == resourceRoles(P).sData && typeKey(fa.X.Type()) == "*avro.ResourceBank"
	}
	isSDataLoad := func(v ssa.Value) bool {
		u, ok := v.(*ssa.UnOp)
		return ok && u.Op == token.MUL && isSData(u.X)
	}
	// stores to sData module-wide
	for _, fn := range P.ModuleFuncs() {
		n := 0
		for _, b := range fn.Blocks {
			for _, in := range b.Instrs {
				st, ok := in.(*ssa.Store)
				if !ok || !isSData(st.Addr) {
					continue
				}
				n++
				key := fmt.Sprintf("%s/store-sData#%d", fnKey(fn), n)
				switch v := st.Val.(type) {
				case *ssa.Call:
					bi, isB := v.Call.Value.(*ssa.Builtin)
					c.Check(isB && bi.Name() == "append" && isSDataLoad(v.Call.Args[0]), key, P.pos(st.Pos()), "sData = append(sData, ...): earlier bytes are kept", "the string store is replaced by something other than an append to itself")
				case *ssa.Slice:
					hi, isHi := int64(-1), false
					if v.High != nil {
						hi, isHi = constInt(v.High)
					}
					lowZero := v.Low == nil
					if z, isK := constInt(v.Low); v.Low != nil && isK && z == 0 {
						lowZero = true
					}
					c.Check(closeOnly(P, fn, 0) && isSDataLoad(v.X) && lowZero && isHi && hi == 0, key, P.pos(st.Pos()), "Close (or a helper only Close calls): sData = sData[:0]", "the string store is truncated outside Close: strings still in use would be overwritten")
				default:
					c.Bad(key, P.pos(st.Pos()), "the string store is overwritten")
				}
			}
		}
	}
	// views of the store, module-wide: what leaves the bank is an immutable string view. A []byte sharing the
	// store is mutable and — unless its capacity is clipped — covers the spare capacity the next interned value
	// will be appended into.
	stringViewOnly := func(a *ssa.Alloc, except ssa.Instruction) bool {
		for _, r := range referrersOf(a) {
			if r == except {
				continue
			}
			if _, isDbg := r.(*ssa.DebugRef); isDbg {
				continue
			}
			cv, ok := r.(*ssa.Convert)
			if !ok || !isUnsafePointer(cv.Type()) {
				return false
			}
			for _, r2 := range referrersOf(cv) {
				cv2, ok := r2.(*ssa.Convert)
				if !ok {
					return false
				}
				pt, ok := cv2.Type().Underlying().(*types.Pointer)
				if !ok || !isBasicKind(pt.Elem(), types.String) {
					return false
				}
				for _, r3 := range referrersOf(cv2) {
					if u, ok := r3.(*ssa.UnOp); !ok || u.Op != token.MUL {
						return false
					}
				}
			}
		}
		return true
	}
	for _, fn := range P.ModuleFuncs() {
		n := 0
		for _, b := range fn.Blocks {
			for _, in := range b.Instrs {
				ld, ok := in.(*ssa.UnOp)
				if !ok || !isSDataLoad(ld) {
					continue
				}
				for _, r := range referrersOf(ld) {
					bad := ""
					switch x := r.(type) {
					case *ssa.DebugRef:
					case *ssa.Call:
						bi, isB := x.Call.Value.(*ssa.Builtin)
						switch {
						case isB && (bi.Name() == "len" || bi.Name() == "cap"):
						case isB && bi.Name() == "append" && x.Call.Args[0] == ssa.Value(ld):
							kept := false
							for _, r2 := range referrersOf(x) {
								if st, isSt := r2.(*ssa.Store); isSt && isSData(st.Addr) {
									kept = true
								} else if _, isDbg := r2.(*ssa.DebugRef); !isDbg {
									bad = "the grown store is also kept somewhere other than in the bank"
								}
							}
							if !kept {
								bad = "the store is appended to without the result being put back"
							}
						case isB && (bi.Name() == "append" || bi.Name() == "copy") && len(x.Call.Args) > 1 && x.Call.Args[1] == ssa.Value(ld):
							// copied from
						default:
							bad = "the bank's string store is handed to " + x.Call.Value.Name()
						}
					case *ssa.Slice:
						if x.Max != nil {
							break // capacity clipped: the view ends where it ends
						}
						for _, r2 := range referrersOf(x) {
							switch y := r2.(type) {
							case *ssa.DebugRef:
							case *ssa.Call:
								if !(isBuiltinCall(y, "SliceData") || isBuiltinCall(y, "len")) {
									bad = "a slice of the bank's string store, with the store's spare capacity, is passed on"
								}
							case *ssa.Store:
								if isSData(y.Addr) {
									break
								}
								if a, isA := y.Addr.(*ssa.Alloc); isA && y.Val == ssa.Value(x) && stringViewOnly(a, y) {
									break
								}
								bad = "a []byte sharing the bank's string store and its spare capacity is stored: the next value interned lands in memory the holder of that slice can append into"
							default:
								bad = "a slice of the bank's string store, with the store's spare capacity, escapes"
							}
						}
					case *ssa.Store:
						if x.Val == ssa.Value(ld) {
							bad = "the bank's string store itself is stored elsewhere"
						}
					case *ssa.Return:
						bad = "the bank's string store itself is returned"
					}
					if bad != "" {
						n++
						c.Bad(fmt.Sprintf("%s/view-of-sData#%d", fnKey(fn), n), P.pos(r.Pos()), bad)
					}
				}
			}
		}
	}
	// ToString itself
	key := fnKey(ts)
	in := ts.Params[len(ts.Params)-1]
	onlyAppendSource := true
	for _, r := range referrersOf(in) {
		if _, isDbg := r.(*ssa.DebugRef); isDbg {
			continue
		}
		call, ok := r.(*ssa.Call)
		if !ok {
			onlyAppendSource = false
			continue
		}
		bi, isB := call.Call.Value.(*ssa.Builtin)
		if !isB || bi.Name() != "append" || call.Call.Args[0] == ssa.Value(in) {
			onlyAppendSource = false
		}
	}
	c.Check(onlyAppendSource, key+"/input-copied", P.pos(ts.Pos()), "the input is used only as the variadic source of append (its bytes are copied)", "ToString keeps or uses its input other than by copying it: the returned string would alias the caller's buffer")
	// returned view: sData[start:] with start = len(sData) before the append
	okView := false
	var app *ssa.Call
	for _, cs := range callsIn(ts) {
		if bi, ok := cs.Common.Value.(*ssa.Builtin); ok && bi.Name() == "append" {
			app = cs.Value()
		}
	}
	for _, b := range ts.Blocks {
		for _, ins := range b.Instrs {
			sl, ok := ins.(*ssa.Slice)
			if !ok || !isSDataLoad(sl.X) || sl.High != nil || sl.Low == nil {
				continue
			}
			ln, ok := sl.Low.(*ssa.Call)
			if !ok {
				continue
			}
			bi, isB := ln.Call.Value.(*ssa.Builtin)
			if isB && bi.Name() == "len" && isSDataLoad(ln.Call.Args[0]) && app != nil && dominatesInstr(ln, app) && dominatesInstr(app, sl) {
				// the result is a string view of that slice
				for _, r := range returnsOf(ts) {
					// unsafe.String(unsafe.SliceData(view), len(view))
					if call, ok := resolvedResults(r)[0].(*ssa.Call); ok && isBuiltinCall(call, "String") && len(call.Call.Args) == 2 {
						sd, ok1 := call.Call.Args[0].(*ssa.Call)
						ln2, ok2 := stripConv(call.Call.Args[1]).(*ssa.Call)
						if ok1 && ok2 && isBuiltinCall(sd, "SliceData") && isBuiltinCall(ln2, "len") && sd.Call.Args[0] == ssa.Value(sl) && ln2.Call.Args[0] == ssa.Value(sl) {
							okView = true
						}
					}
					if ld, ok := resolvedResults(r)[0].(*ssa.UnOp); ok {
						if cv, ok := ld.X.(*ssa.Convert); ok {
							if cv2, ok := cv.X.(*ssa.Convert); ok {
								if a, ok := cv2.X.(*ssa.Alloc); ok {
									for _, rr := range referrersOf(a) {
										if st, ok := rr.(*ssa.Store); ok && st.Val == ssa.Value(sl) {
											okView = true
										}
									}
								}
							}
						}
					}
				}
			}
		}
	}
	c.Check(okView, key+"/view", P.pos(ts.Pos()), "returns a string view of sData[start:] where start is the length before the append", "the string returned is not the freshly appended tail of the bank's store")
}

func ruleALBump(c *Ctx) {
	P := c.P
	c.Rule("AL-BUMP", "every allocation from a bank is a fresh slot: the slot index is the length before it is incremented, the length is incremented on every path, growth installs a new array of exactly the recorded capacity", 3)
	c.Rule("AL-CLR", "the slot returned is cleared with its own type before it is handed out", 1)
	c.Rule("AL-CLOSE", "closing a bank only resets lengths and returns it to the pool", 2)
	rbT := P.NamedType(P.Avro, "ResourceBank")
	al := P.Method(rbT, "Alloc")
	if !c.Anchor(al != nil, "(*ResourceBank).Alloc") {
		return
	}
	R := resourceRoles(P)
	if !c.Anchor(R.ok, "roles of the bank's fields (arena table, string store; entry: type pointer, array, capacity, length, element size)") {
		return
	}
	key := fnKey(al)
	fieldLoad := func(v ssa.Value, name string) bool {
		u, ok := v.(*ssa.UnOp)
		if !ok || u.Op != token.MUL {
			return false
		}
		fa, ok := u.X.(*ssa.FieldAddr)
		return ok && fieldName(fa.X.Type(), fa.Field) == name
	}
	if af := allocByFold(P); af.ok {
		pos := P.pos(al.Pos())
		c.Rule("AL-BUMP", "", 0)
		for _, cl := range []string{"slot-address", "pre-increment-index", "growth"} {
			c.Check(af.problems[cl] == "" && af.problems["shape"] == "", key+"/"+cl, pos, af.detail, af.problems[cl]+af.problems["shape"])
		}
		alLenStores(c, R)
		c.Rule("AL-CLR", "", 0)
		switch {
		case af.problems["clear"] != "":
			c.Bad(key+"/clear", pos, af.problems["clear"]+": a recycled bank leaks values from an earlier record")
		default:
			if ok, why := typedClear(P, af.clearFn, 0); ok {
				c.OK(key+"/clear", pos, "in every outcome the runtime's typedmemclr is applied to the very pointer returned, with the run-time type of its arena")
			} else {
				c.Unk(key+"/clear", pos, "the slot handed out is cleared by something that is not known to clear all of it: "+why)
			}
		}
		alStale(c)
		alClose(c, R, rbT)
		return
	}
	rs := returnsOf(al)
	if len(rs) != 1 {
		c.Unk(key+"/shape", P.pos(al.Pos()), "Alloc does not have a single return")
		return
	}
	ret := rs[0]
	ptr := resolvedResults(ret)[0]
	// Alloc may hand the slot computation and the growth to helper methods of the arena entry: the slot rules
	// are then decided in the helper whose single result Alloc returns, the growth rule where the new array is
	// allocated (with the "arena is full" fact taken at that helper's call site)
	alloc0 := al
	var growCallSite *ssa.Call
	if call, ok := ptr.(*ssa.Call); ok {
		if h := call.Call.StaticCallee(); h != nil && P.isModuleFunc(h) && h.Blocks != nil && h.Signature.Recv() != nil {
			if hr := returnsOf(h); len(hr) == 1 {
				al, ret, ptr = h, hr[0], resolvedResults(hr[0])[0]
			}
		}
	}
	_ = alloc0
	// ptr = unsafe.Pointer(uintptr(array) + uintptr(i*size))
	var idx ssa.Value
	okPtr := false
	// unsafe.Pointer(uintptr(array) + uintptr(i*size)) or unsafe.Add(array, i*size)
	var base, off ssa.Value
	if cv, ok := ptr.(*ssa.Convert); ok {
		if add, ok := cv.X.(*ssa.BinOp); ok && add.Op == token.ADD {
			if cb, ok := add.X.(*ssa.Convert); ok {
				base, off = cb.X, add.Y
			}
		}
	} else if call, ok := ptr.(*ssa.Call); ok && isBuiltinCall(call, "Add") && len(call.Call.Args) == 2 {
		base, off = call.Call.Args[0], call.Call.Args[1]
	}
	if base != nil && fieldLoad(base, R.array) {
		if mul, ok := stripConv(off).(*ssa.BinOp); ok && mul.Op == token.MUL {
			if fieldLoad(mul.Y, R.size) {
				idx, okPtr = mul.X, true
			} else if fieldLoad(mul.X, R.size) {
				idx, okPtr = mul.Y, true
			}
		}
	}
	c.Rule("AL-BUMP", "", 0)
	c.Check(okPtr, key+"/slot-address", P.pos(ret.Pos()), "the pointer returned is array + index*size", "the pointer returned is not array + index*size of the type's arena")
	alLenStores(c, R)
	// idx is a load of len that precedes the store len = len+1
	var lenStore *ssa.Store
	for _, b := range al.Blocks {
		for _, in := range b.Instrs {
			if st, ok := in.(*ssa.Store); ok {
				if fa, ok := st.Addr.(*ssa.FieldAddr); ok && fieldName(fa.X.Type(), fa.Field) == R.len {
					lenStore = st
				}
			}
		}
	}
	okIdx := false
	if lenStore != nil && idx != nil && fieldLoad(idx, R.len) {
		if bo, ok := lenStore.Val.(*ssa.BinOp); ok && bo.Op == token.ADD && fieldLoad(bo.X, R.len) {
			if one, ok := constInt(bo.Y); ok && one == 1 && dominatesInstr(idx.(ssa.Instruction), lenStore) && dominatesInstr(lenStore, ret) {
				okIdx = true
			}
		}
	}
	c.Check(okIdx, key+"/pre-increment-index", P.pos(ret.Pos()), "index = len read before len = len+1, and the increment happens on every path to the return", "the slot index is not the length before an increment that happens on every path: two allocations could share a slot")
	// growth: on the len==cap edge, array = unsafe_NewArray(ptyp, n) and cap = n
	var grow *ssa.Call
	growFn := alloc0
	for _, cs := range callsIn(alloc0) {
		if cs.Static != nil && cs.Static.Name() == "unsafe_NewArray" {
			grow = cs.Value()
		}
	}
	if grow == nil {
		for _, cs := range callsIn(alloc0) {
			h := cs.Static
			if h == nil || !P.isModuleFunc(h) || h.Blocks == nil || h.Signature.Recv() == nil {
				continue
			}
			for _, hc := range callsIn(h) {
				if hc.Static != nil && hc.Static.Name() == "unsafe_NewArray" {
					grow, growFn, growCallSite = hc.Value(), h, cs.Value()
					if growCallSite == nil {
						if ci, ok := cs.Instr.(*ssa.Call); ok {
							growCallSite = ci
						}
					}
				}
			}
		}
	}
	okGrow := false
	if grow != nil {
		full := false
		factBlock := grow.Block()
		if growFn != alloc0 && growCallSite != nil {
			factBlock = growCallSite.Block()
		}
		for _, cmp := range cmpFactsAt(factBlock) {
			if cmp.Op == token.EQL && (fieldLoad(cmp.X, R.len) && fieldLoad(cmp.Y, R.cap) || fieldLoad(cmp.X, R.cap) && fieldLoad(cmp.Y, R.len)) {
				full = true
			}
		}
		arrStored, capStored := false, false
		for _, b := range growFn.Blocks {
			for _, in := range b.Instrs {
				if st, ok := in.(*ssa.Store); ok {
					if fa, ok := st.Addr.(*ssa.FieldAddr); ok {
						switch fieldName(fa.X.Type(), fa.Field) {
						case R.array:
							arrStored = st.Val == ssa.Value(grow)
						case R.cap:
							capStored = st.Val == grow.Call.Args[1]
						}
					}
				}
			}
		}
		// the new capacity exceeds the old: phi of cap*2 and a positive constant chosen when cap*2 is smaller
		bigger := false
		srcs := phiSources(grow.Call.Args[1])
		if mx, ok := grow.Call.Args[1].(*ssa.Call); ok && isBuiltinCall(mx, "max") {
			srcs = mx.Call.Args
		}
		for _, s := range srcs {
			if k, ok := constInt(s); ok && k > 0 {
				bigger = true
			}
		}
		okGrow = full && arrStored && capStored && bigger && fieldLoad(grow.Call.Args[0], R.ptyp)
	}
	c.Check(okGrow, key+"/growth", P.pos(al.Pos()), "exactly when len == cap a new array of the type is allocated, installed, and its size recorded as cap", "growth does not install a new typed array whose size is recorded as the capacity exactly when the arena is full")
	// the no-growth path needs len != cap, i.e. the full test dominates the slot use on one edge: covered by growth being on the equal edge and joining
	c.Rule("AL-CLR", "", 0)
	okClr, whyClr := false, ""
	for _, cs := range callsIn(al) {
		if cs.Static != nil && isTypedClearCandidate(cs.Static) && len(cs.Common.Args) == 2 && cs.Common.Args[1] == ptr && fieldLoad(cs.Common.Args[0], R.ptyp) && dominatesInstr(cs.Instr, ret) {
			if ok, why := typedClear(P, cs.Static, 0); ok {
				okClr = true
			} else {
				whyClr = why
			}
		}
	}
	if !okClr && whyClr != "" {
		c.Unk(key+"/clear", P.pos(ret.Pos()), "the slot handed out is cleared by something that is not known to clear all of it: "+whyClr)
	} else {
		c.Check(okClr, key+"/clear", P.pos(ret.Pos()), "the runtime's typedmemclr(ptyp, ptr) on the returned pointer dominates the return", "the slot handed out is not cleared with its own type first: a recycled bank leaks values from an earlier record")
	}
	alStale(c)
	alClose(c, R, rbT)
}

// alLenStores: module-wide, an arena's length is only ever stored as itself plus one, or zero.
func alLenStores(c *Ctx, R *bankRoles) {
	P := c.P
	c.Rule("AL-BUMP", "", 0)
	// the length of an arena only ever grows by one (an allocation) or goes back to zero (Close, a fresh entry):
	// a slot handed out stays handed out until the bank is closed
	if R.entry != nil {
		nLen := 0
		for _, fn := range P.ModuleFuncs() {
			for _, b := range fn.Blocks {
				for _, in := range b.Instrs {
					st, ok := in.(*ssa.Store)
					if !ok {
						continue
					}
					fa, ok := st.Addr.(*ssa.FieldAddr)
					if !ok || fieldName(fa.X.Type(), fa.Field) != R.len {
						continue
					}
					pt, isPtr := fa.X.Type().Underlying().(*types.Pointer)
					if !isPtr || !types.Identical(types.Unalias(pt.Elem()), types.Type(R.entry)) {
						continue
					}
					nLen++
					okStore := false
					if k, isK := constInt(st.Val); isK && k == 0 {
						okStore = true
					}
					if add, isAdd := st.Val.(*ssa.BinOp); isAdd && add.Op == token.ADD {
						if one, isOne := constInt(add.Y); isOne && one == 1 {
							if ld, isLd := add.X.(*ssa.UnOp); isLd && ld.Op == token.MUL {
								if fa2, isFA := ld.X.(*ssa.FieldAddr); isFA && fa2.Field == fa.Field && fa2.X == fa.X {
									okStore = true
								}
							}
						}
					}
					c.Check(okStore, fmt.Sprintf("%s/len-store#%d", fnKey(fn), nLen), P.pos(st.Pos()), "the arena length is incremented by one or reset to zero", "an arena's length is given a value other than itself plus one, or zero: a slot that is still in use can be handed out again")
					// a function that takes a slot (bumps the length) clears it on every way out, whoever calls it and
					// with whatever arguments: a second way into the allocator that skips the clear hands out what an
					// earlier record left there
					if k, isK := constInt(st.Val); !(isK && k == 0) && fn.Signature.Results().Len() == 1 {
						var clr ssa.Instruction
						for _, cs := range callsIn(fn) {
							if cs.Static != nil && (cs.Static.Name() == "typedmemclr" || cs.Static.Name() == "typedmemclrpartial") {
								clr = cs.Instr
							}
						}
						clearsAlways := func(f *ssa.Function) bool {
							var cl ssa.Instruction
							for _, cs := range callsIn(f) {
								if cs.Static != nil && (cs.Static.Name() == "typedmemclr" || cs.Static.Name() == "typedmemclrpartial") {
									cl = cs.Instr
								}
							}
							if cl == nil {
								return false
							}
							for _, r := range returnsOf(f) {
								if !dominatesInstr(cl, r) {
									return false
								}
							}
							return true
						}
						_ = clr
						okClr := clearsAlways(fn)
						if !okClr {
							// the bump may sit in a small helper of the arena entry: then every function that calls it clears
							sites := callersOf(P, fn)
							okClr = len(sites) > 0
							for _, site := range sites {
								if site.Parent() == nil || !clearsAlways(site.Parent()) {
									okClr = false
								}
							}
						}
						c.Rule("AL-CLR", "", 0)
						c.Check(okClr, fmt.Sprintf("%s/clear-on-every-path#%d", fnKey(fn), nLen), P.pos(st.Pos()), "the function that takes the slot clears it (typedmemclr) on every path to a return", "the function that takes a slot from the arena does not clear it on every path to a return (the clear is missing, or depends on a condition): a recycled bank hands out what an earlier record left there")
						c.Rule("AL-BUMP", "", 0)
					}
				}
			}
		}
	}
}

// alStale: AL-STALE.
func alStale(c *Ctx) {
	P := c.P
	// no pointer into a growable arena table outlives the call: an element address of a slice field that is
	// appended to somewhere must not be stored in a field or a package variable (append may move the table)
	c.Rule("AL-STALE", "no address of an element of a slice that is grown by append is kept in a field or package variable: after the slice is reallocated such a pointer refers to a dead copy whose counters diverge from the live entry", 1)
	{
		// slice fields that are appended to
		grown := map[string]bool{}
		for _, fn := range P.ModuleFuncs() {
			for _, b := range fn.Blocks {
				for _, in := range b.Instrs {
					st, ok := in.(*ssa.Store)
					if !ok {
						continue
					}
					fa, ok := st.Addr.(*ssa.FieldAddr)
					if !ok {
						continue
					}
					if call, ok := st.Val.(*ssa.Call); ok && isBuiltinCall(call, "append") {
						grown[typeKey(fa.X.Type())+"."+fieldName(fa.X.Type(), fa.Field)] = true
					}
				}
			}
		}
		var elemOfGrown func(v ssa.Value) (string, bool)
		retMemo := map[*ssa.Function]string{}
		// returnsElem: every pointer fn returns (as its only result) is the address of an element of a grown slice
		var returnsElem func(fn *ssa.Function, d int) string
		returnsElem = func(fn *ssa.Function, d int) string {
			if fn == nil || fn.Blocks == nil || d > 3 || fn.Signature.Results().Len() != 1 {
				return ""
			}
			if k, ok := retMemo[fn]; ok {
				return k
			}
			retMemo[fn] = ""
			k := ""
			for _, r := range returnsOf(fn) {
				rk, ok := elemOfGrown(resolvedResults(r)[0])
				if !ok {
					return ""
				}
				k = rk
			}
			retMemo[fn] = k
			return k
		}
		elemOfGrown = func(v ssa.Value) (string, bool) {
			for i := 0; i < 8; i++ {
				switch x := v.(type) {
				case *ssa.Call:
					// what a module helper hands back (the arena entry found for a type) is still an element address
					if g := x.Call.StaticCallee(); g != nil && P.isModuleFunc(g) {
						if k := returnsElem(g, 0); k != "" {
							return k, grown[k]
						}
					}
					return "", false
				case *ssa.FieldAddr:
					v = x.X
					continue
				case *ssa.Phi:
					for _, e := range x.Edges {
						if _, isNil := e.(*ssa.Const); !isNil {
							v = e
						}
					}
					if v == ssa.Value(x) {
						return "", false
					}
					continue
				case *ssa.IndexAddr:
					if ld, ok := x.X.(*ssa.UnOp); ok && ld.Op == token.MUL {
						if fa, ok := ld.X.(*ssa.FieldAddr); ok {
							k := typeKey(fa.X.Type()) + "." + fieldName(fa.X.Type(), fa.Field)
							return k, grown[k]
						}
					}
					return "", false
				}
				return "", false
			}
			return "", false
		}
		nGrown := 0
		for k := range grown {
			if strings.Contains(k, "ResourceBank") {
				nGrown++
			}
		}
		bad := 0
		for _, fn := range P.ModuleFuncs() {
			n := 0
			for _, b := range fn.Blocks {
				for _, in := range b.Instrs {
					st, ok := in.(*ssa.Store)
					if !ok {
						continue
					}
					if _, isPtr := st.Val.Type().Underlying().(*types.Pointer); !isPtr {
						continue
					}
					k, isEl := elemOfGrown(st.Val)
					if !isEl {
						continue
					}
					switch st.Addr.(type) {
					case *ssa.FieldAddr, *ssa.Global, *ssa.IndexAddr:
						n++
						bad++
						c.Bad(fmt.Sprintf("%s/kept-element-address#%d", fnKey(fn), n), P.pos(st.Pos()), "the address of an element of "+k+" is kept beyond the call although that slice is grown by append: once it is reallocated the pointer refers to a dead copy, and allocations through it hand out slots that are already in use")
					}
				}
			}
		}
		if bad == 0 {
			c.Check(nGrown > 0, "avro.ResourceBank/element-addresses", "-", fmt.Sprintf("no element address of a grown slice is stored in a field or package variable (%d grown slice fields in the bank)", nGrown), "the bank's arena table is not a slice grown by append any more (rule needs re-reading)")
		}
	}
	// Close
}

// alClose: AL-CLOSE.
func alClose(c *Ctx, R *bankRoles, rbT types.Type) {
	P := c.P
	c.Rule("AL-CLOSE", "", 0)
	cl := P.Method(rbT, "Close")
	if cl != nil {
		if probs, ok := closeByFold(P); ok {
			msg := "Close folded on a bank with two arenas (2 of 4 and 4 of 4 in use) and five bytes of string data: afterwards both lengths are 0, arrays and capacities are untouched, the string store is empty, and the bank itself — nothing else — has been put into the pool, once"
			c.Check(len(probs) == 0, fnKey(cl)+"/reset", P.pos(cl.Pos()), msg, "Close does more (or less) than reset lengths and return the bank: "+strings.Join(probs, "; "))
			c.Check(len(probs) == 0, fnKey(cl)+"/all-arenas", P.pos(cl.Pos()), msg, strings.Join(probs, "; "))
			return
		}
	}
	if c.Anchor(cl != nil, "(*ResourceBank).Close") {
		bad := ""
		put := false
		for _, b := range cl.Blocks {
			for _, in := range b.Instrs {
				switch x := in.(type) {
				case *ssa.Store:
					fa, ok := x.Addr.(*ssa.FieldAddr)
					if !ok {
						bad = "a store through something other than a field"
						continue
					}
					switch fieldName(fa.X.Type(), fa.Field) {
					case R.len:
						if z, ok := constInt(x.Val); !ok || z != 0 {
							bad = "len set to a non-zero value"
						}
					case R.sData:
					default:
						bad = "field " + fieldName(fa.X.Type(), fa.Field) + " modified"
					}
				case *ssa.Call:
					if sc := x.Call.StaticCallee(); sc != nil && qualName(sc) == "(*sync.Pool).Put" {
						put = true
						if x.Call.Args[1].(*ssa.MakeInterface).X != ssa.Value(cl.Params[0]) {
							bad = "something other than the bank itself is put in the pool"
						}
					}
				}
			}
		}
		c.Check(bad == "" && put, fnKey(cl)+"/reset", P.pos(cl.Pos()), "lengths set to zero, string store truncated, the bank itself returned to the pool", "Close does more (or less) than reset lengths and return the bank: "+bad)
		// every arena is reset: the loop covers rb.types
		okLoop := false
		for _, l := range loopsOf(cl) {
			for b := range l.Blocks {
				for _, in := range b.Instrs {
					if st, ok := in.(*ssa.Store); ok {
						if fa, ok := st.Addr.(*ssa.FieldAddr); ok && fieldName(fa.X.Type(), fa.Field) == R.len && strings.Contains(accessPath(fa.X), "->"+R.types+")") {
							okLoop = true
						}
					}
				}
			}
		}
		c.Check(okLoop, fnKey(cl)+"/all-arenas", P.pos(cl.Pos()), "every arena's length is reset in a loop over rb.types", "not every arena's length is reset on Close")
	}
}

// closeOnly: fn is the bank's Close, or an unexported function every call of which is made by such a function.
func closeOnly(P *Program, fn *ssa.Function, d int) bool {
	if fn == nil || d > 3 {
		return false
	}
	if fn.Name() == "Close" && fn.Signature.Recv() != nil && strings.HasSuffix(typeKey(fn.Signature.Recv().Type()), "avro.ResourceBank") {
		return true
	}
	if token.IsExported(fn.Name()) {
		return false
	}
	n := 0
	for _, g := range P.ModuleFuncs() {
		for _, cs := range callsIn(g) {
			if cs.Static != fn {
				continue
			}
			n++
			if !closeOnly(P, g, d+1) {
				return false
			}
		}
		// a method value or a function value taken of it escapes the analysis
		for _, b := range g.Blocks {
			for _, in := range b.Instrs {
				if mc, ok := in.(*ssa.MakeClosure); ok && mc.Fn == ssa.Value(fn) {
					return false
				}
			}
		}
	}
	return n > 0
}

func isBuiltinCall(call *ssa.Call, name string) bool {
	bi, ok := call.Call.Value.(*ssa.Builtin)
	return ok && bi.Name() == name
}

// ---------- AL-KEY (C10, C11)

// ruleALKey: the arena handed out for a type is the arena of exactly that
// type. The arena's element type decides how the collector scans it and how
// slots are cleared, so an arena found by anything weaker than type identity
// (size, kind) puts pointer-bearing values in memory that is not scanned.
func ruleALKey(c *Ctx) {
	c.Rule("AL-KEY", "the arena table is keyed by the exact run-time type: the search over it is left with an entry only on the equal edge of entry.type == the requested type's pointer, and a new arena records the requested type's own pointer", 2)
	P := c.P
	R := resourceRoles(P)
	if !c.Anchor(R.ok, "roles of the bank's fields") {
		return
	}
	if af := allocByFold(P); af.ok {
		rbN := P.NamedType(P.Avro, "ResourceBank")
		al := P.Method(rbN, "Alloc")
		msg := af.detail + ": an existing arena is used exactly on the path where its type word was found equal to the one thing every arena is compared with; otherwise a new arena is made, allocated with that very type word"
		c.Check(af.problems["key"] == "", fnKey(al)+"/search-keyed-by-type", P.pos(al.Pos()), msg, af.problems["key"])
		c.Check(af.problems["key"] == "", fnKey(al)+"/new-arena-records-type", P.pos(al.Pos()), msg, af.problems["key"])
		return
	}
	// the search: a loop that indexes the arena table, in a method of the bank that is given a reflect.Type
	type search struct {
		fn  *ssa.Function
		l   *Loop
		typ *ssa.Parameter
	}
	var found []search
	for _, f := range P.ModuleFuncs() {
		if f.Signature.Recv() == nil || f.Blocks == nil || typeKey(f.Signature.Recv().Type()) != "*avro.ResourceBank" || reflectTypeParamIdx(f) < 0 {
			continue
		}
		for _, l := range loopsOf(f) {
			hit := false
			for blk := range l.Blocks {
				for _, in := range blk.Instrs {
					if ia, ok := in.(*ssa.IndexAddr); ok && strings.HasSuffix(accessPath(ia.X), "->"+R.types+")") {
						hit = true
					}
				}
			}
			if hit {
				found = append(found, search{f, l, f.Params[reflectTypeParamIdx(f)]})
			}
		}
	}
	if !c.Anchor(len(found) > 0, "the search over the bank's arena table (a loop indexing it, in a method given a reflect.Type)") {
		return
	}
	for _, sr := range found {
		fn, l, typ := sr.fn, sr.l, sr.typ
		key := fnKey(fn)
		wantLike := func(v ssa.Value) bool {
			src := rtypeSource(v)
			return src != nil && stripChange(src) == ssa.Value(typ)
		}
		// the deciding comparison(s): entry.type == requested type
		var cmpBlocks []*ssa.BasicBlock
		for blk := range l.Blocks {
			iff, ok := blk.Instrs[len(blk.Instrs)-1].(*ssa.If)
			if !ok {
				continue
			}
			cmp, ok := asCmp(iff.Cond, true)
			if !ok || cmp.Op != token.EQL && cmp.Op != token.NEQ {
				continue
			}
			for _, pair := range [][2]ssa.Value{{cmp.X, cmp.Y}, {cmp.Y, cmp.X}} {
				ld, isLd := pair[0].(*ssa.UnOp)
				if !isLd || ld.Op != token.MUL {
					continue
				}
				fa, isFA := ld.X.(*ssa.FieldAddr)
				if isFA && fieldName(fa.X.Type(), fa.Field) == R.ptyp && wantLike(pair[1]) {
					cmpBlocks = append(cmpBlocks, blk)
				}
			}
		}
		// every way out of the search other than running off the end of the table is the equal edge
		bad := ""
		nFound := 0
		for blk := range l.Blocks {
			for i, succ := range blk.Succs {
				if l.Blocks[succ] {
					continue
				}
				if blk == l.Header {
					continue // the table is exhausted
				}
				isCmp := false
				for _, cb := range cmpBlocks {
					if cb == blk {
						iff := blk.Instrs[len(blk.Instrs)-1].(*ssa.If)
						cmp, _ := asCmp(iff.Cond, i == 0)
						if cmp.Op == token.EQL {
							isCmp = true
						}
					}
				}
				if isCmp {
					nFound++
				} else {
					bad = "the search is left at " + P.pos(blk.Instrs[len(blk.Instrs)-1].Pos()) + " on an edge that is not the equal edge of a comparison of the entry's recorded type with the requested type"
				}
			}
		}
		c.Check(bad == "" && nFound > 0, key+"/existing-entry", P.pos(l.Header.Instrs[0].Pos()), "an existing arena is selected only where entry.type == the requested type's pointer", "an existing arena can be selected without its recorded type having been found equal to the requested type ("+bad+"): values of another type (with other pointer slots) are carved out of it, invisible to the collector or cleared with the wrong layout")
		// the new entry records the requested type
		okNew := false
		for _, b := range fn.Blocks {
			for _, in := range b.Instrs {
				st, ok := in.(*ssa.Store)
				if !ok {
					continue
				}
				app, ok := st.Val.(*ssa.Call)
				if !ok || !isBuiltinCall(app, "append") || len(app.Call.Args) != 2 {
					continue
				}
				sl, ok := app.Call.Args[1].(*ssa.Slice)
				if !ok {
					continue
				}
				a, ok := sl.X.(*ssa.Alloc)
				if !ok {
					continue
				}
				for _, r := range referrersOf(a) {
					ia, ok := r.(*ssa.IndexAddr)
					if !ok {
						continue
					}
					for _, r2 := range referrersOf(ia) {
						if es, ok := r2.(*ssa.Store); ok && es.Addr == ssa.Value(ia) {
							if ld, ok := es.Val.(*ssa.UnOp); ok && ld.Op == token.MUL {
								if lit, ok := ld.X.(*ssa.Alloc); ok {
									if v := literalFields(lit)[R.ptyp]; v != nil && wantLike(v) {
										okNew = true
									}
								}
							}
						}
						if fa, ok := r2.(*ssa.FieldAddr); ok && fieldName(fa.X.Type(), fa.Field) == R.ptyp {
							for _, r3 := range referrersOf(fa) {
								if es, ok := r3.(*ssa.Store); ok && wantLike(es.Val) {
									okNew = true
								}
							}
						}
					}
				}
			}
		}
		c.Check(okNew, key+"/new-entry", P.pos(fn.Pos()), "a new arena records the requested type's own pointer", "a new arena does not record the requested type's pointer")
	}
}

// ---------- AL-FINAL (C10, C11)

// ruleALFinal: memory handed out from a bank is reused only after an explicit
// Close. Decoded values do not point back at their bank, so the bank object
// becoming unreachable says nothing about the values carved out of it: a
// finalizer or cleanup that recycles a bank reuses live memory.
func ruleALFinal(c *Ctx) {
	c.Rule("AL-FINAL", "no finalizer or cleanup is attached to anything in the module: banks are recycled by Close alone, never by the collector's verdict on the bank object", 1)
	P := c.P
	n := 0
	for _, fn := range P.ModuleFuncs() {
		for _, cs := range callsIn(fn) {
			if cs.Static == nil {
				continue
			}
			switch qualName(cs.Static) {
			case "runtime.SetFinalizer", "runtime.AddCleanup":
				if isNilConst(stripChange(cs.Common.Args[len(cs.Common.Args)-1])) {
					continue // clearing a finalizer
				}
				n++
				c.Bad(fmt.Sprintf("%s/finalizer#%d", fnKey(fn), n), P.pos(cs.Instr.Pos()), "a finalizer or cleanup is installed: if it recycles a bank (or anything decoded values point into) the memory is reused while values decoded from it are still live")
			}
		}
	}
	if n == 0 {
		c.OK("module/no-finalizers", "-", "runtime.SetFinalizer / runtime.AddCleanup are not used")
	}
}
