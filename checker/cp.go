package main

// E-CP: interprocedural constant propagation over go/ssa with inputs taken
// from a specification table.
//
// A function is folded for given abstract arguments: constants, nil, structs
// of such, pointers to cells, and "unknown" (with an identity, so that
// unknown*constant stays recognisable). Module callees with bodies are folded
// in turn; calls that leave the module are recorded (callee, folded
// arguments) and yield unknown. A branch on an unknown condition forks: both
// arms are folded and every outcome is reported, so the result is the set of
// (results, external calls) over all paths consistent with the inputs — a
// path-sensitive constant propagation, not an execution: nothing of the
// library runs, unknown stays unknown, and there is no solver.
//
// Budgets (outcomes, steps, forks, depth) make the fold fail closed: callers
// fall back on their older, syntactic way of reading the code or report
// "undecided".

import (
	"fmt"
	"go/constant"
	"go/token"
	"go/types"
	"sort"
	"strings"

	"golang.org/x/tools/go/ssa"
)

type cpVal interface{}

type (
	cpInt   struct{ V int64 }
	cpStr   struct{ V string }
	cpBool  struct{ V bool }
	cpFloat struct{ V float64 }
	cpNil   struct{}
	// cpUnk is a value the fold knows nothing about; ID tells two of them apart. Deps lists (",3,4,") the
	// bytes of a symbolic input string the value was computed from, when it was.
	cpUnk struct {
		ID   string
		Deps string
	}
	// cpLin is ID*Mul+Add for an unknown integer ID.
	cpLin struct {
		ID       string
		Mul, Add int64
		Deps     string
	}
	// cpStrSym is (a sub-string of) a symbolic input string: the length is known, the bytes are not.
	cpStrSym struct {
		ID       string
		Off, Len int64
	}
	cpStruct struct {
		T types.Type
		F map[int]*cpCell
	}
	cpPtr   struct{ C *cpCell }
	cpIface struct {
		T types.Type
		V cpVal
	}
	cpTuple struct{ Vs []cpVal }
	cpFn    struct{ Fn *ssa.Function }
	// cpSlice is a slice of known length whose elements are cells (shared by copies of the header).
	cpSlice struct {
		T     types.Type
		Elems []*cpCell
	}
	// cpArr is an array value (the contents of an array cell).
	cpArr struct {
		T     types.Type
		Elems []*cpCell
	}
	// cpMap is a map with known contents (a reference: copies share the object).
	cpMap struct{ O *cpMapObj }
	// cpClosure is a function literal with what it captured.
	cpClosure struct {
		Fn   *ssa.Function
		Bind []cpVal
	}
	// cpIterSeq is the model of an iter.Seq over known values (strings.SplitSeq of constants).
	cpIterSeq struct{ Vals []cpVal }
)

type cpMapObj struct {
	T       types.Type
	M       map[string]*cpMapEntry
	Unknown bool // something the fold could not follow was done to it
}

type cpMapEntry struct{ K, V cpVal }

// cpRType is the model of a reflect.Type value: what the methods the library
// calls on it answer. Identity is the pointer.
type cpRType struct {
	ID string
	// Go: the go/types type this models, when it was made from one (reflect.TypeOf of a statically typed value)
	Go      types.Type
	Kind    int64
	Elem    *cpRType
	Key     *cpRType
	Name    string
	PkgPath string
	Fields  []cpRField
	Size    int64
}

type cpRField struct {
	Name, PkgPath, Tag string
	Type               *cpRType
	Offset             int64
	Anonymous          bool
}

type cpCell struct {
	V cpVal
	T types.Type
}

// cpCall is one call that left the module (or could not be folded).
type cpCall struct {
	Callee string // qualified name of the static callee, or "invoke:<method>", or "dynamic"
	Args   []cpVal
	Instr  ssa.CallInstruction
	Result cpVal // what the fold used for the call's value
	Fun    cpVal // the function value called, for a call that is neither static nor an interface method call
	// Deref: for each pointer argument, what the cell it points to held when the call was made (the call is
	// assumed to change it afterwards); nil for the other arguments
	Deref []cpVal
	// MapT: for a recorded map lookup, the static type of the map
	MapT types.Type
}

// cpOutcome is one way the folded function can end.
type cpOutcome struct {
	Results []cpVal
	Calls   []cpCall
	Panics  bool
	// Decided: the truth assumed for each unknown condition branched on (by
	// the identity of the unknown; a negated unknown is recorded un-negated).
	Decided map[string]bool
	// Failed: this path ran into something the fold has no model for (only with cpTolerant; otherwise the
	// whole fold fails)
	Failed string
	// Bytes: for each named byte of a symbolic input that the path tested, the values it can have on this
	// path; Constraints: comparisons of sums of several bytes the path assumed.
	Bytes       map[string]cpByteSet
	Constraints []cpConstraint
}

type cpEngine struct {
	P         *Program
	MaxOut    int
	MaxSteps  int
	MaxForks  int
	MaxDepth  int
	decisions []bool // replayed prefix
	taken     []bool // decisions made in this run
	pending   [][]bool
	steps     int
	calls     []cpCall
	decided   map[string]bool
	failed    string
	uid       int
	opaque    func(*ssa.Function) bool
	visited   map[*ssa.Function]bool
	// bytes: per named input byte, the values still possible on this path; constraints: what was assumed
	// about sums of several bytes (cp_bytes.go)
	bytes       map[string]cpByteSet
	constraints []cpConstraint
	cur         ssa.Instruction // the instruction being executed (innermost frame)
	// globals: the cells of package-level variables the fold knows the contents of. While a package
	// initialiser is being folded (initMode) every module variable gets a cell; afterwards only the
	// variables that nothing but initialisers ever write keep theirs.
	globals  map[*ssa.Global]*cpCell
	initMode bool
	// onceDone: the sync.Once values whose function has run on this path
	onceDone map[*cpCell]bool
	// varintBufs: "varintlen:<x>" -> the first cell of the buffer binary.PutVarint wrote the varint of x into
	varintBufs map[string]*cpCell
	// trackAtoms: keep, for the path being folded, the comparisons branched on with their operands (atoms, in
	// the order decided, each with the number of calls recorded before it) and, for byte buffers of unknown
	// length, where their length came from (bufInfo)
	trackAtoms bool
	// forkLookups: a lookup in a small known table under an unknown string key forks over the entries
	forkLookups bool
	// foldAll: module functions are folded whatever is known about their arguments
	foldAll bool
	// havocSlices: a call the fold does not follow may also have written the elements of a slice handed to it
	havocSlices bool
	// keepField: fields (of a struct type, by index) that a call the fold does not follow is taken to leave as
	// they are; whoever sets it has to show that nothing outside the folded functions writes them
	keepField func(t types.Type, field int) bool
	atomInfo  map[string]cpAtom
	atoms     []cpAtom
	bufInfo   map[string]cpBufInfo
	// LoopCut: when > 0, a path that enters the same block of one frame more often than this ends there ("cut"):
	// for questions about the first turns of a loop whose trip count the fold does not know
	LoopCut int
}

func cpResetVisits(visits map[*ssa.BasicBlock]int, b *ssa.BasicBlock) {
	if visits[b] != 0 {
		delete(visits, b)
	}
	for _, d := range b.Dominees() {
		cpResetVisits(visits, d)
	}
}

// cpAtom is one comparison a path branched on: X Op Y was taken to be Truth. NCalls is the number of calls
// recorded on the path before the decision.
type cpAtom struct {
	ID     string
	X, Y   cpVal
	Op     token.Token
	Truth  bool
	NCalls int
	Known  bool // X, Y, Op are filled in (false: an unknown condition that is not a comparison)
}

// cpBufInfo: a slice of unknown length made by make([]T, Len) or cut as Of[:Len]
type cpBufInfo struct {
	Len cpVal  // the length made, or the upper bound of the cut (nil: none given)
	Low cpVal  // the lower bound of the cut (nil: none given)
	Of  string // the unknown slice that was cut
}

func (e *cpEngine) noteAtom(r cpVal, x *ssa.BinOp, a, b cpVal) {
	u, ok := r.(cpUnk)
	if !ok {
		return
	}
	switch x.Op {
	case token.EQL, token.NEQ, token.LSS, token.LEQ, token.GTR, token.GEQ:
	default:
		return
	}
	id, op := u.ID, x.Op
	for strings.HasPrefix(id, "!") {
		id, op = id[1:], negOp(op)
	}
	// a named comparison keeps the operand order of its name
	if e.atomInfo == nil {
		e.atomInfo = map[string]cpAtom{}
	}
	if _, dup := e.atomInfo[id]; dup {
		return
	}
	// the un-negated name states: X op' Y where op' is the operator of the un-negated form
	e.atomInfo[id] = cpAtom{ID: id, X: a, Y: b, Op: op, Known: true}
}

func negOp(op token.Token) token.Token {
	switch op {
	case token.EQL:
		return token.NEQ
	case token.NEQ:
		return token.EQL
	case token.LSS:
		return token.GEQ
	case token.GEQ:
		return token.LSS
	case token.GTR:
		return token.LEQ
	case token.LEQ:
		return token.GTR
	}
	return op
}

type cpAbort struct{ why string }

func (e *cpEngine) fail(why string) {
	panic(cpAbort{why})
}

func (e *cpEngine) fresh(hint string) cpUnk {
	e.uid++
	return cpUnk{ID: fmt.Sprintf("%s#%d", hint, e.uid)}
}

// cpDeps: the input bytes a value depends on.
func cpDeps(v cpVal) string {
	switch x := v.(type) {
	case cpUnk:
		return x.Deps
	case cpLin:
		return x.Deps
	case cpBF:
		return x.Deps
	case cpAff:
		return x.Deps
	}
	return ""
}

// cpJoinDeps merges dependency lists (each ",i,j," with ascending indices).
func cpJoinDeps(ds ...string) string {
	set := map[int]bool{}
	for _, d := range ds {
		for _, p := range strings.Split(d, ",") {
			if p == "" {
				continue
			}
			n := 0
			fmt.Sscanf(p, "%d", &n)
			set[n] = true
		}
	}
	if len(set) == 0 {
		return ""
	}
	var idx []int
	for i := range set {
		idx = append(idx, i)
	}
	sort.Ints(idx)
	out := ","
	for _, i := range idx {
		out += fmt.Sprintf("%d,", i)
	}
	return out
}

func (e *cpEngine) freshDeps(hint string, deps string) cpUnk {
	u := e.fresh(hint)
	u.Deps = deps
	return u
}

// cpFold folds fn for args and returns every outcome, or ok=false when a
// budget was exceeded or an instruction is outside what the fold understands.
// cpMaxOutcomes bounds the number of outcomes of one fold (a rule that needs
// more for a particular question raises it around its call).
var cpMaxOutcomes = 96

// cpFoldAll: folds started through cpFoldOpt follow every module function, whatever is known about its
// arguments (set around a fold whose outcomes are to be compared with each other).
var cpFoldAll = false

// cpNilInvokePanics: a method called on a nil interface value ends the path in a run-time panic (set by the rules
// that ask about panics; elsewhere the call is recorded with its nil receiver for the rules that look for it)
var cpNilInvokePanics = false

// cpMaxDepth: how deep cpFoldOpt follows calls (a call beyond it is recorded, not folded)
var cpMaxDepth = 8

// cpTolerant: a path that meets something the fold cannot model ends as a "failed" outcome instead of failing
// the whole fold (budgets still fail it). For questions about one particular kind of outcome.
var cpTolerant = false

// cpTouch, cpPanicAt: when non-nil, the index, slice and lookup instructions a fold executed, and those at
// which a path ended in a run-time panic, are collected here (for "no input makes this index panic").
var cpTouch, cpPanicAt, cpUnsure map[ssa.Instruction]bool

// sureIndex notes an index or slice expression whose bounds the fold cannot check exactly (an offset that
// is not a known integer, a base whose length is not known): "no panic here" is then not the fold's to say.
func (e *cpEngine) sureIndex(fr *cpFrame, in ssa.Instruction, base ssa.Value, idx ...ssa.Value) {
	if cpUnsure == nil {
		return
	}
	sure := true
	switch b := e.get(fr, base).(type) {
	case cpStrSym, cpStr, cpSlice, cpArr:
	case cpPtr:
		if b.C == nil {
			sure = false
		} else if _, isArr := b.C.V.(cpArr); !isArr {
			sure = false
		}
	default:
		sure = false
	}
	for _, i := range idx {
		if i == nil {
			continue
		}
		if _, isK := e.get(fr, i).(cpInt); !isK {
			sure = false
		}
	}
	if !sure {
		cpUnsure[in] = true
	}
}

// cpMaxForks bounds the number of undecided branches along one path.
var cpMaxForks = 28

func cpFold(P *Program, fn *ssa.Function, args []cpVal) (outs []cpOutcome, ok bool, why string) {
	outs, _, ok, why = cpFoldOpt(P, fn, args, nil)
	return
}

// cpFoldOpt is cpFold with a set of module functions not to fold (their calls
// are recorded like calls that leave the module); it also reports the
// functions folded through.
func cpFoldOpt(P *Program, fn *ssa.Function, args []cpVal, opaque func(*ssa.Function) bool) (outs []cpOutcome, visited map[*ssa.Function]bool, ok bool, why string) {
	e := &cpEngine{P: P, MaxOut: cpMaxOutcomes, MaxSteps: 40000, MaxForks: cpMaxForks, MaxDepth: cpMaxDepth, opaque: opaque, visited: map[*ssa.Function]bool{}, foldAll: cpFoldAll}
	e.globals = cpInitGlobals(P)
	defer func() { visited = e.visited }()
	e.pending = [][]bool{nil}
	for len(e.pending) > 0 {
		d := e.pending[len(e.pending)-1]
		e.pending = e.pending[:len(e.pending)-1]
		e.decisions, e.taken, e.steps, e.calls, e.uid, e.decided = d, nil, 0, nil, 0, map[string]bool{}
		e.bytes, e.constraints, e.onceDone, e.varintBufs = nil, nil, nil, nil
		out, aborted := e.runTop(fn, args)
		if aborted != "" {
			return nil, nil, false, aborted
		}
		outs = append(outs, out)
		if len(outs) > e.MaxOut {
			return nil, nil, false, "too many outcomes"
		}
	}
	return outs, e.visited, true, ""
}

func (e *cpEngine) runTop(fn *ssa.Function, args []cpVal) (out cpOutcome, aborted string) {
	defer func() {
		if r := recover(); r != nil {
			if a, ok := r.(cpAbort); ok {
				if a.why == "panic-instr" {
					if cpPanicAt != nil && e.cur != nil {
						cpPanicAt[e.cur] = true
					}
					out = cpOutcome{Panics: true, Calls: e.calls, Decided: e.decided, Bytes: e.bytes, Constraints: e.constraints}
					return
				}
				if cpTolerant && !strings.Contains(a.why, "budget") && !strings.Contains(a.why, "too many") && a.why != "call depth" && a.why != "loop bound" {
					out = cpOutcome{Failed: a.why, Calls: e.calls, Decided: e.decided, Bytes: e.bytes, Constraints: e.constraints}
					return
				}
				aborted = a.why
				return
			}
			panic(r)
		}
	}()
	// deep-copy the arguments so that runs do not see each other's stores
	cp := make([]cpVal, len(args))
	memo := map[*cpCell]*cpCell{}
	for i, a := range args {
		cp[i] = cpCopy(a, memo)
	}
	res := e.call(fn, cp, 0)
	return cpOutcome{Results: res, Calls: e.calls, Decided: e.decided, Bytes: e.bytes, Constraints: e.constraints}, ""
}

// cpCopy copies a value; cells reachable through pointers are copied once
// (aliasing among the arguments is preserved).
func cpCopy(v cpVal, memo map[*cpCell]*cpCell) cpVal {
	switch x := v.(type) {
	case cpStruct:
		n := cpStruct{T: x.T, F: map[int]*cpCell{}}
		for i, c := range x.F {
			n.F[i] = &cpCell{V: cpCopy(c.V, memo), T: c.T}
		}
		return n
	case cpPtr:
		if x.C == nil {
			return x
		}
		if c, ok := memo[x.C]; ok {
			return cpPtr{C: c}
		}
		c := &cpCell{T: x.C.T}
		memo[x.C] = c
		c.V = cpCopy(x.C.V, memo)
		return cpPtr{C: c}
	case cpIface:
		return cpIface{T: x.T, V: cpCopy(x.V, memo)}
	case cpSlice:
		n := cpSlice{T: x.T, Elems: make([]*cpCell, len(x.Elems))}
		for i, c := range x.Elems {
			if m, ok := memo[c]; ok {
				n.Elems[i] = m
				continue
			}
			nc := &cpCell{T: c.T}
			memo[c] = nc
			nc.V = cpCopy(c.V, memo)
			n.Elems[i] = nc
		}
		return n
	case cpArr:
		n := cpArr{T: x.T, Elems: make([]*cpCell, len(x.Elems))}
		for i, c := range x.Elems {
			n.Elems[i] = &cpCell{V: cpCopy(c.V, memo), T: c.T}
		}
		return n
	case cpTuple:
		n := cpTuple{Vs: make([]cpVal, len(x.Vs))}
		for i, y := range x.Vs {
			n.Vs[i] = cpCopy(y, memo)
		}
		return n
	}
	return v
}

// cpValueCopy is the copy made by a load or a store: structs by value, pointers shared.
func cpValueCopy(v cpVal) cpVal {
	switch x := v.(type) {
	case cpStruct:
		n := cpStruct{T: x.T, F: map[int]*cpCell{}}
		for i, c := range x.F {
			n.F[i] = &cpCell{V: cpValueCopy(c.V), T: c.T}
		}
		return n
	case cpIface:
		return cpIface{T: x.T, V: cpValueCopy(x.V)}
	case cpArr:
		n := cpArr{T: x.T, Elems: make([]*cpCell, len(x.Elems))}
		for i, c := range x.Elems {
			n.Elems[i] = &cpCell{V: cpValueCopy(c.V), T: c.T}
		}
		return n
	}
	return v
}

func (e *cpEngine) zero(t types.Type) cpVal {
	switch u := t.Underlying().(type) {
	case *types.Basic:
		switch {
		case u.Info()&types.IsBoolean != 0:
			return cpBool{false}
		case u.Info()&types.IsString != 0:
			return cpStr{""}
		case u.Info()&types.IsInteger != 0:
			return cpInt{0}
		case u.Info()&types.IsFloat != 0:
			return cpFloat{0}
		case u.Kind() == types.UnsafePointer:
			return cpNil{}
		}
		return e.fresh("zero")
	case *types.Struct:
		return cpStruct{T: t, F: map[int]*cpCell{}}
	case *types.Array:
		if u.Len() <= 64 {
			a := cpArr{T: t, Elems: make([]*cpCell, u.Len())}
			for i := range a.Elems {
				a.Elems[i] = &cpCell{V: e.zero(u.Elem()), T: u.Elem()}
			}
			return a
		}
		return e.fresh("zero")
	case *types.Pointer, *types.Slice, *types.Map, *types.Chan, *types.Interface, *types.Signature:
		return cpNil{}
	}
	return e.fresh("zero")
}

func (e *cpEngine) field(s cpStruct, i int) *cpCell {
	if c, ok := s.F[i]; ok {
		return c
	}
	st, ok := s.T.Underlying().(*types.Struct)
	var ft types.Type
	if ok && i < st.NumFields() {
		ft = st.Field(i).Type()
	}
	c := &cpCell{T: ft}
	if ft != nil {
		c.V = e.zero(ft)
	} else {
		c.V = e.fresh("field")
	}
	s.F[i] = c
	return c
}

type cpFrame struct {
	fn     *ssa.Function
	env    map[ssa.Value]cpVal
	defers []cpDeferred
}

type cpDeferred struct {
	instr *ssa.Defer
	args  []cpVal // receiver first for an interface method call
}

func (e *cpEngine) get(fr *cpFrame, v ssa.Value) cpVal {
	switch x := v.(type) {
	case *ssa.Const:
		return e.constVal(x)
	case *ssa.Function:
		return cpFn{Fn: x}
	case *ssa.Global:
		if c, ok := e.globals[x]; ok {
			return cpPtr{C: c}
		}
		if e.initMode && x.Pkg != nil && e.P.isModulePkg(x.Pkg.Pkg) {
			t := x.Type().(*types.Pointer).Elem()
			c := &cpCell{V: e.zero(t), T: t}
			e.globals[x] = c
			return cpPtr{C: c}
		}
		return cpUnk{ID: "global:" + x.String()}
	case *ssa.Builtin:
		return cpUnk{ID: "builtin:" + x.Name()}
	}
	if r, ok := fr.env[v]; ok {
		return r
	}
	return cpUnk{ID: fr.fn.Name() + ":" + v.Name()}
}

func (e *cpEngine) constVal(c *ssa.Const) cpVal {
	if c.Value == nil {
		// nil, or the zero value of an aggregate
		switch c.Type().Underlying().(type) {
		case *types.Struct, *types.Array:
			return e.zero(c.Type())
		}
		return cpNil{}
	}
	switch c.Value.Kind() {
	case constant.Bool:
		return cpBool{constant.BoolVal(c.Value)}
	case constant.String:
		return cpStr{constant.StringVal(c.Value)}
	case constant.Int:
		if i, ok := constant.Int64Val(c.Value); ok {
			return cpInt{i}
		}
		if u, ok := constant.Uint64Val(c.Value); ok {
			return cpInt{int64(u)}
		}
	case constant.Float:
		f, _ := constant.Float64Val(c.Value)
		if b, ok := c.Type().Underlying().(*types.Basic); ok && b.Info()&types.IsInteger != 0 {
			return cpInt{int64(f)}
		}
		return cpFloat{f}
	}
	return cpUnk{ID: "const:" + c.String()}
}

func cpKnown(v cpVal) bool {
	switch v.(type) {
	case cpUnk, cpLin:
		return false
	case nil:
		return false
	}
	return true
}

// decide asks for the truth of an unknown condition: replay, or fork.
func (e *cpEngine) decide(cv cpVal) bool {
	u, isU := cv.(cpUnk)
	if !isU {
		return e.decide0()
	}
	id, neg := u.ID, false
	for strings.HasPrefix(id, "!") {
		id, neg = id[1:], !neg
	}
	// the same unknown is not decided twice on one path
	if truth, ok := e.decided[id]; ok {
		return truth != neg
	}
	t := e.decide0()
	e.decided[id] = t != neg
	if e.trackAtoms {
		at, known := e.atomInfo[id]
		if !known {
			at = cpAtom{ID: id}
		}
		at.Truth, at.NCalls = t != neg, len(e.calls)
		e.atoms = append(e.atoms, at)
	}
	return t
}

func (e *cpEngine) decide0() bool {
	k := len(e.taken)
	if k < len(e.decisions) {
		e.taken = append(e.taken, e.decisions[k])
		return e.decisions[k]
	}
	if k >= e.MaxForks {
		e.fail("too many branches on unknown values")
	}
	alt := append(append([]bool{}, e.taken...), false)
	e.pending = append(e.pending, alt)
	e.taken = append(e.taken, true)
	return true
}

func (e *cpEngine) call(fn *ssa.Function, args []cpVal, depth int) []cpVal {
	return e.callBound(fn, args, nil, depth)
}

func (e *cpEngine) callBound(fn *ssa.Function, args []cpVal, bind []cpVal, depth int) []cpVal {
	if depth > e.MaxDepth {
		e.fail("call depth")
	}
	if fn.Blocks == nil {
		e.fail("no body")
	}
	e.visited[fn] = true
	fr := &cpFrame{fn: fn, env: map[ssa.Value]cpVal{}}
	for i, p := range fn.Params {
		if i < len(args) {
			fr.env[p] = args[i]
		} else {
			fr.env[p] = cpUnk{ID: fn.Name() + ":" + p.Name()}
		}
	}
	for i, fv := range fn.FreeVars {
		if i < len(bind) {
			fr.env[fv] = bind[i]
		} else {
			fr.env[fv] = cpUnk{ID: fn.Name() + ":free:" + fv.Name()}
		}
	}
	var prev *ssa.BasicBlock
	b := fn.Blocks[0]
	visits := map[*ssa.BasicBlock]int{}
	for {
		visits[b]++
		if e.LoopCut > 0 {
			if visits[b] > e.LoopCut {
				e.fail("cut")
			}
			if visits[b] > 1 {
				// another turn of the loop headed by b: the loops nested in it count their turns afresh
				for _, d := range b.Dominees() {
					cpResetVisits(visits, d)
				}
			}
		}
		if visits[b] > 64 {
			e.fail("loop bound")
		}
		// phis first, all read from the incoming state
		var phiVals []cpVal
		var phis []*ssa.Phi
		for _, in := range b.Instrs {
			phi, ok := in.(*ssa.Phi)
			if !ok {
				break
			}
			var pv cpVal = cpUnk{ID: fn.Name() + ":" + phi.Name()}
			for i, p := range b.Preds {
				if p == prev {
					pv = e.get(fr, phi.Edges[i])
				}
			}
			phis = append(phis, phi)
			phiVals = append(phiVals, pv)
		}
		for i, phi := range phis {
			fr.env[phi] = phiVals[i]
		}
		var next *ssa.BasicBlock
		for _, in := range b.Instrs[len(phis):] {
			e.cur = in
			e.steps++
			if e.steps > e.MaxSteps {
				e.fail("step budget")
			}
			switch x := in.(type) {
			case *ssa.DebugRef:
			case *ssa.Return:
				out := make([]cpVal, len(x.Results))
				for i, r := range x.Results {
					out[i] = e.get(fr, r)
				}
				return out
			case *ssa.Panic:
				e.fail("panic-instr")
			case *ssa.Jump:
				next = b.Succs[0]
			case *ssa.If:
				cv := e.get(fr, x.Cond)
				var t bool
				if bv, ok := cv.(cpBool); ok {
					t = bv.V
				} else {
					t = e.decide(cv)
				}
				if t {
					next = b.Succs[0]
				} else {
					next = b.Succs[1]
				}
			case *ssa.Store:
				addr := e.get(fr, x.Addr)
				if p, ok := addr.(cpPtr); ok && p.C != nil {
					p.C.V = cpValueCopy(e.get(fr, x.Val))
				}
			case *ssa.MapUpdate:
				e.mapUpdate(fr, x)
			case *ssa.Send:
			case *ssa.Defer:
				// evaluated now, run at RunDefers
				d := cpDeferred{instr: x}
				cc := x.Common()
				if cc.IsInvoke() {
					d.args = append(d.args, e.get(fr, cc.Value))
				}
				for _, a := range cc.Args {
					d.args = append(d.args, e.get(fr, a))
				}
				fr.defers = append(fr.defers, d)
			case *ssa.RunDefers:
				for i := len(fr.defers) - 1; i >= 0; i-- {
					e.runDeferred(fr, fr.defers[i], depth)
				}
				fr.defers = nil
			case *ssa.Go:
				ci := in.(ssa.CallInstruction)
				e.record(fr, ci, "go")
			case ssa.Value:
				fr.env[x] = e.eval(fr, x, depth)
			default:
				e.fail("instruction " + in.String())
			}
			if next != nil {
				break
			}
		}
		if next == nil {
			e.fail("fell off block")
		}
		prev, b = b, next
	}
}

func (e *cpEngine) record(fr *cpFrame, ci ssa.CallInstruction, kind string) []cpVal {
	cc := ci.Common()
	args := make([]cpVal, 0, len(cc.Args)+1)
	if cc.IsInvoke() {
		args = append(args, e.get(fr, cc.Value))
	}
	for _, a := range cc.Args {
		args = append(args, e.get(fr, a))
	}
	name := kind
	if g := cc.StaticCallee(); g != nil {
		name = qualName(g)
	} else if cc.IsInvoke() {
		name = "invoke:" + cc.Method.Name()
	}
	cl := cpCall{Callee: name, Args: args, Instr: ci, Deref: make([]cpVal, len(args))}
	for i, a := range args {
		if iv, ok := a.(cpIface); ok {
			a = iv.V
		}
		if p, ok := a.(cpPtr); ok && p.C != nil {
			cl.Deref[i] = cpValueCopy(p.C.V)
		}
	}
	if cc.StaticCallee() == nil && !cc.IsInvoke() {
		cl.Fun = e.get(fr, cc.Value)
	}
	e.calls = append(e.calls, cl)
	// whatever a cell handed out by pointer held is now unknown
	for _, a := range args {
		e.havoc(a, 0)
	}
	return args
}

func (e *cpEngine) havoc(v cpVal, d int) {
	if d > 3 {
		return
	}
	switch x := v.(type) {
	case cpPtr:
		if x.C != nil {
			if s, ok := x.C.V.(cpStruct); ok {
				// every field, the ones not yet looked at included (a struct's cells are made on first use)
				n := 0
				if st, isS := s.T.Underlying().(*types.Struct); isS {
					n = st.NumFields()
				}
				for i := 0; i < n; i++ {
					if e.keepField != nil && e.keepField(s.T, i) {
						continue
					}
					e.field(s, i).V = e.fresh("havoc")
				}
				for i, c := range s.F {
					if i >= n && !(e.keepField != nil && e.keepField(s.T, i)) {
						c.V = e.fresh("havoc")
					}
				}
			} else {
				x.C.V = e.fresh("havoc")
			}
		}
	case cpSlice:
		if e.havocSlices {
			for _, c := range x.Elems {
				if c != nil {
					c.V = e.fresh("havoc")
				}
			}
		}
	case cpIface:
		e.havoc(x.V, d+1)
	case cpClosure:
		// whoever gets the closure can call it: what it captured may change
		for _, b := range x.Bind {
			e.havoc(b, d+1)
		}
	}
}

func (e *cpEngine) resultOf(fr *cpFrame, v ssa.Value, hint string) cpVal {
	if tup, ok := v.Type().(*types.Tuple); ok {
		out := cpTuple{Vs: make([]cpVal, tup.Len())}
		for i := range out.Vs {
			out.Vs[i] = e.fresh(hint)
		}
		return out
	}
	return e.fresh(hint)
}

func (e *cpEngine) eval(fr *cpFrame, v ssa.Value, depth int) cpVal {
	if cpTouch != nil {
		switch x := v.(type) {
		case *ssa.Index:
			cpTouch[x] = true
			e.sureIndex(fr, x, x.X, x.Index)
		case *ssa.IndexAddr:
			cpTouch[x] = true
			e.sureIndex(fr, x, x.X, x.Index)
		case *ssa.Slice:
			cpTouch[x] = true
			e.sureIndex(fr, x, x.X, x.Low, x.High, x.Max)
		case *ssa.Lookup:
			if _, isMap := x.X.Type().Underlying().(*types.Map); !isMap {
				cpTouch[x] = true
				e.sureIndex(fr, x, x.X, x.Index)
			}
		}
	}
	switch x := v.(type) {
	case *ssa.Alloc:
		t := x.Type().(*types.Pointer).Elem()
		return cpPtr{C: &cpCell{V: e.zero(t), T: t}}
	case *ssa.FieldAddr:
		base := e.get(fr, x.X)
		if p, ok := base.(cpPtr); ok && p.C != nil {
			if s, ok := p.C.V.(cpStruct); ok {
				return cpPtr{C: e.field(s, x.Field)}
			}
			if u, ok := p.C.V.(cpUnk); ok {
				return cpPtr{C: &cpCell{V: cpUnk{ID: u.ID + "." + fieldName(x.X.Type(), x.Field)}}}
			}
		}
		return cpPtr{C: &cpCell{V: e.fresh("fieldaddr")}}
	case *ssa.Field:
		base := e.get(fr, x.X)
		if s, ok := base.(cpStruct); ok {
			return cpValueCopy(e.field(s, x.Field).V)
		}
		if u, ok := base.(cpUnk); ok {
			return cpUnk{ID: u.ID + "." + fieldNameT(x.X.Type(), x.Field)} // a part of that unknown: still nameable
		}
		return e.fresh("field")
	case *ssa.IndexAddr:
		var elems []*cpCell
		known := false
		switch b := e.get(fr, x.X).(type) {
		case cpSlice:
			elems, known = b.Elems, true
		case cpPtr:
			if b.C != nil {
				if a, ok := b.C.V.(cpArr); ok {
					elems, known = a.Elems, true
				}
			}
		}
		if known {
			if i, ok := e.get(fr, x.Index).(cpInt); ok {
				if i.V < 0 || i.V >= int64(len(elems)) {
					e.fail("panic-instr")
				}
				return cpPtr{C: elems[i.V]}
			}
		}
		return cpPtr{C: &cpCell{V: e.fresh("elem")}}
	case *ssa.Slice:
		return e.evalSlice(fr, x)
	case *ssa.Index:
		idx, isI := e.get(fr, x.Index).(cpInt)
		switch b := e.get(fr, x.X).(type) {
		case cpArr:
			if isI && idx.V >= 0 && idx.V < int64(len(b.Elems)) {
				return cpValueCopy(b.Elems[idx.V].V)
			}
		case cpStr:
			if isI {
				if idx.V < 0 || idx.V >= int64(len(b.V)) {
					e.fail("panic-instr")
				}
				return cpInt{int64(b.V[idx.V])}
			}
		case cpStrSym:
			if isI {
				if idx.V < 0 || idx.V >= b.Len {
					e.fail("panic-instr")
				}
				return cpByteIdent(fmt.Sprintf("%s[%d]", b.ID, b.Off+idx.V), b.Off+idx.V)
			}
			e.fail("a symbolic string indexed at an unknown position")
		}
		return e.fresh("index")
	case *ssa.MakeMap:
		return cpMap{O: &cpMapObj{T: x.Type(), M: map[string]*cpMapEntry{}}}
	case *ssa.Lookup:
		return e.evalLookup(fr, x)
	case *ssa.MakeSlice:
		if n, ok := e.get(fr, x.Len).(cpInt); ok && n.V >= 0 && n.V <= 64 {
			et := x.Type().Underlying().(*types.Slice).Elem()
			sl := cpSlice{T: x.Type(), Elems: make([]*cpCell, n.V)}
			for i := range sl.Elems {
				sl.Elems[i] = &cpCell{V: e.zero(et), T: et}
			}
			return sl
		}
		r := e.resultOf(fr, v, "opaque")
		if u, isU := r.(cpUnk); isU && e.trackAtoms {
			if e.bufInfo == nil {
				e.bufInfo = map[string]cpBufInfo{}
			}
			e.bufInfo[u.ID] = cpBufInfo{Len: e.get(fr, x.Len)}
		}
		return r
	case *ssa.MakeClosure:
		cl := cpClosure{}
		if f, ok := x.Fn.(*ssa.Function); ok {
			cl.Fn = f
		}
		for _, b := range x.Bindings {
			cl.Bind = append(cl.Bind, e.get(fr, b))
		}
		if cl.Fn == nil {
			return e.resultOf(fr, v, "opaque")
		}
		return cl
	case *ssa.Range:
		if sym, isSym := e.get(fr, x.X).(cpStrSym); isSym {
			return cpStrIter{S: sym, Next: new(int64)}
		}
		return e.resultOf(fr, v, "opaque")
	case *ssa.Next:
		if it, ok := e.get(fr, x.Iter).(cpStrIter); ok {
			return e.strIterNext(it)
		}
		return e.resultOf(fr, v, "opaque")
	case *ssa.MakeChan, *ssa.Select, *ssa.SliceToArrayPointer, *ssa.MultiConvert:
		return e.resultOf(fr, v, "opaque")
	case *ssa.Extract:
		t := e.get(fr, x.Tuple)
		if tv, ok := t.(cpTuple); ok && x.Index < len(tv.Vs) {
			return tv.Vs[x.Index]
		}
		return e.fresh("extract")
	case *ssa.UnOp:
		a := e.get(fr, x.X)
		switch x.Op {
		case token.MUL:
			if p, ok := a.(cpPtr); ok && p.C != nil {
				return cpValueCopy(p.C.V)
			}
			if u, ok := a.(cpUnk); ok && strings.HasPrefix(u.ID, "global:") {
				// an error variable of another package (io.EOF, io.ErrUnexpectedEOF, ...) or a sentinel made by
				// errors.New at package level in the module: never nil
				if g, isG := x.X.(*ssa.Global); isG && isErrorType(x.Type()) && g.Pkg != nil && (!e.P.isModulePkg(g.Pkg.Pkg) || cpSentinelError(g)) {
					return cpIface{T: x.Type(), V: cpUnk{ID: "*" + u.ID}}
				}
				return cpUnk{ID: "*" + u.ID} // what a package-level variable holds: unknown, but named
			}
			return e.fresh("load")
		case token.NOT:
			if b, ok := a.(cpBool); ok {
				return cpBool{!b.V}
			}
			if u, ok := a.(cpUnk); ok {
				return cpUnk{ID: "!" + u.ID}
			}
		case token.SUB:
			if i, ok := a.(cpInt); ok {
				return e.wrap(cpInt{-i.V}, x.Type())
			}
			if f, ok := a.(cpFloat); ok {
				return cpFloat{-f.V}
			}
			if r, ok := e.byteNeg(a); ok && isWide64(x.Type()) {
				return r
			}
		case token.XOR:
			if i, ok := a.(cpInt); ok {
				return e.wrap(cpInt{^i.V}, x.Type())
			}
		}
		if d := cpDeps(a); d != "" {
			return e.freshDeps("unop", d)
		}
		return e.resultOf(fr, v, "unop")
	case *ssa.BinOp:
		a, b := e.get(fr, x.X), e.get(fr, x.Y)
		r := e.binop(x, a, b)
		if e.trackAtoms {
			e.noteAtom(r, x, a, b)
		}
		return r
	case *ssa.Phi:
		return e.get(fr, x)
	case *ssa.ChangeType:
		return e.get(fr, x.X)
	case *ssa.ChangeInterface:
		return e.get(fr, x.X)
	case *ssa.Convert:
		a := e.get(fr, x.X)
		if r, ok := e.byteConvert(x, a); ok {
			return r
		}
		switch y := a.(type) {
		case cpInt:
			if b, ok := x.Type().Underlying().(*types.Basic); ok {
				if b.Info()&types.IsInteger != 0 {
					return e.wrap(y, x.Type())
				}
				if b.Info()&types.IsFloat != 0 {
					return cpFloat{float64(y.V)}
				}
			}
			return e.fresh("conv")
		case cpFloat:
			if b, ok := x.Type().Underlying().(*types.Basic); ok {
				if b.Info()&types.IsInteger != 0 {
					return e.wrap(cpInt{int64(y.V)}, x.Type())
				}
				if b.Info()&types.IsFloat != 0 {
					return y
				}
			}
			return e.fresh("conv")
		case cpStr:
			if b, ok := x.Type().Underlying().(*types.Basic); ok && b.Info()&types.IsString != 0 {
				return y
			}
			return e.fresh("conv")
		case cpPtr, cpNil:
			return a // pointer conversions through unsafe.Pointer keep the cell
		case cpUnk, cpLin:
			// an integer conversion that cannot lose bits keeps the identity; one that reinterprets the sign at
			// the same width, or cuts bits off, gives "that value seen as T" — a name, so that what happens to a
			// value on its way to the wire can be read off (int64(uint32(v)) is not v)
			if fb, ok := x.X.Type().Underlying().(*types.Basic); ok {
				if tb, ok := x.Type().Underlying().(*types.Basic); ok && fb.Info()&types.IsInteger != 0 && tb.Info()&types.IsInteger != 0 {
					fu, tu := fb.Info()&types.IsUnsigned != 0, tb.Info()&types.IsUnsigned != 0
					fs, ts := e.P.sizeOf(fb), e.P.sizeOf(tb)
					widenOK := ts > fs && (fu == tu || fu) || ts == fs && fu == tu
					if widenOK {
						return a
					}
					if u, isU := a.(cpUnk); isU && !strings.HasPrefix(u.ID, "cmp") {
						return cpUnk{ID: tb.Name() + "(" + u.ID + ")", Deps: u.Deps}
					}
				}
			}
			// so do the conversions between pointers, unsafe.Pointer and uintptr (address arithmetic on an unknown address)
			isAddr := func(t types.Type) bool {
				switch u := t.Underlying().(type) {
				case *types.Pointer:
					return true
				case *types.Basic:
					return u.Kind() == types.UnsafePointer || u.Kind() == types.Uintptr
				}
				return false
			}
			if isAddr(x.X.Type()) && isAddr(x.Type()) {
				return a
			}
			return e.freshDeps("conv", cpDeps(a))
		}
		return e.fresh("conv")
	case *ssa.MakeInterface:
		return cpIface{T: x.X.Type(), V: cpValueCopy(e.get(fr, x.X))}
	case *ssa.TypeAssert:
		a := e.get(fr, x.X)
		if i, ok := a.(cpIface); ok {
			hit := types.Identical(i.T, x.AssertedType)
			if _, isI := x.AssertedType.Underlying().(*types.Interface); isI {
				hit = types.Implements(i.T, x.AssertedType.Underlying().(*types.Interface))
				if x.CommaOk {
					if hit {
						return cpTuple{Vs: []cpVal{i, cpBool{true}}}
					}
					return cpTuple{Vs: []cpVal{cpNil{}, cpBool{false}}}
				}
				if hit {
					return i
				}
				e.fail("panic-instr")
			}
			if x.CommaOk {
				if hit {
					return cpTuple{Vs: []cpVal{i.V, cpBool{true}}}
				}
				return cpTuple{Vs: []cpVal{e.zero(x.AssertedType), cpBool{false}}}
			}
			if hit {
				return i.V
			}
			e.fail("panic-instr")
		}
		if _, isNil := a.(cpNil); isNil && x.CommaOk {
			return cpTuple{Vs: []cpVal{e.zero(x.AssertedType), cpBool{false}}}
		}
		if u, isU := a.(cpUnk); isU {
			// the asserted value is still "that unknown"
			if x.CommaOk {
				return cpTuple{Vs: []cpVal{cpUnk{ID: u.ID + "/assert"}, e.fresh("ok")}}
			}
			return cpUnk{ID: u.ID + "/assert"}
		}
		return e.resultOf(fr, v, "assert")
	case *ssa.Call:
		return e.evalCall(fr, x, depth)
	}
	e.fail("value " + v.String())
	return nil
}

func (P *Program) sizeOf(b *types.Basic) int64 {
	return types.SizesFor("gc", "amd64").Sizeof(b)
}

// wrap truncates a constant integer to the width of t.
func (e *cpEngine) wrap(i cpInt, t types.Type) cpVal {
	b, ok := t.Underlying().(*types.Basic)
	if !ok {
		return i
	}
	switch b.Kind() {
	case types.Int8:
		return cpInt{int64(int8(i.V))}
	case types.Int16:
		return cpInt{int64(int16(i.V))}
	case types.Int32:
		return cpInt{int64(int32(i.V))}
	case types.Uint8:
		return cpInt{int64(uint8(i.V))}
	case types.Uint16:
		return cpInt{int64(uint16(i.V))}
	case types.Uint32:
		return cpInt{int64(uint32(i.V))}
	}
	return i
}

func (e *cpEngine) binop(x *ssa.BinOp, a, b cpVal) cpVal {
	if r, ok := e.byteBinop(x, a, b); ok {
		return r
	}
	if r, ok := e.rngBinop(x, a, b); ok {
		return r
	}
	cmp := func(c int) cpVal {
		switch x.Op {
		case token.EQL:
			return cpBool{c == 0}
		case token.NEQ:
			return cpBool{c != 0}
		case token.LSS:
			return cpBool{c < 0}
		case token.LEQ:
			return cpBool{c <= 0}
		case token.GTR:
			return cpBool{c > 0}
		case token.GEQ:
			return cpBool{c >= 0}
		}
		return nil
	}
	switch av := a.(type) {
	case cpInt:
		if bv, ok := b.(cpInt); ok {
			unsigned := false
			if bt, ok := x.X.Type().Underlying().(*types.Basic); ok && bt.Info()&types.IsUnsigned != 0 {
				unsigned = true
			}
			switch x.Op {
			case token.ADD:
				return e.wrap(cpInt{av.V + bv.V}, x.Type())
			case token.SUB:
				return e.wrap(cpInt{av.V - bv.V}, x.Type())
			case token.MUL:
				return e.wrap(cpInt{av.V * bv.V}, x.Type())
			case token.QUO:
				if bv.V == 0 {
					e.fail("panic-instr")
				}
				if unsigned {
					return e.wrap(cpInt{int64(uint64(av.V) / uint64(bv.V))}, x.Type())
				}
				return e.wrap(cpInt{av.V / bv.V}, x.Type())
			case token.REM:
				if bv.V == 0 {
					e.fail("panic-instr")
				}
				if unsigned {
					return e.wrap(cpInt{int64(uint64(av.V) % uint64(bv.V))}, x.Type())
				}
				return e.wrap(cpInt{av.V % bv.V}, x.Type())
			case token.AND:
				return cpInt{av.V & bv.V}
			case token.OR:
				return cpInt{av.V | bv.V}
			case token.XOR:
				return e.wrap(cpInt{av.V ^ bv.V}, x.Type())
			case token.AND_NOT:
				return cpInt{av.V &^ bv.V}
			case token.SHL:
				if bv.V >= 0 && bv.V < 64 {
					return e.wrap(cpInt{av.V << uint(bv.V)}, x.Type())
				}
			case token.SHR:
				if bv.V >= 0 && bv.V < 64 {
					if unsigned {
						return cpInt{int64(uint64(av.V) >> uint(bv.V))}
					}
					return cpInt{av.V >> uint(bv.V)}
				}
			default:
				c := 0
				if unsigned {
					switch {
					case uint64(av.V) < uint64(bv.V):
						c = -1
					case uint64(av.V) > uint64(bv.V):
						c = 1
					}
				} else {
					switch {
					case av.V < bv.V:
						c = -1
					case av.V > bv.V:
						c = 1
					}
				}
				if r := cmp(c); r != nil {
					return r
				}
			}
		}
		// constant (op) unknown: keep linear forms
		if x.Op == token.MUL || x.Op == token.ADD {
			return e.linear(x.Op, b, av.V, x)
		}
	case cpStr:
		if bu, isU := b.(cpUnk); isU {
			switch x.Op {
			case token.EQL:
				return cpUnk{ID: "cmp:" + bu.ID + "==" + av.V}
			case token.NEQ:
				return cpUnk{ID: "!cmp:" + bu.ID + "==" + av.V}
			}
		}
		if bv, ok := b.(cpStr); ok {
			if x.Op == token.ADD {
				return cpStr{av.V + bv.V}
			}
			c := 0
			switch {
			case av.V < bv.V:
				c = -1
			case av.V > bv.V:
				c = 1
			}
			if r := cmp(c); r != nil {
				return r
			}
		}
	case cpBool:
		if bv, ok := b.(cpBool); ok {
			switch x.Op {
			case token.EQL:
				return cpBool{av.V == bv.V}
			case token.NEQ:
				return cpBool{av.V != bv.V}
			case token.AND, token.LAND:
				return cpBool{av.V && bv.V}
			case token.OR, token.LOR:
				return cpBool{av.V || bv.V}
			}
		}
	case cpFloat:
		if bv, ok := b.(cpFloat); ok {
			switch x.Op {
			case token.ADD:
				return cpFloat{av.V + bv.V}
			case token.SUB:
				return cpFloat{av.V - bv.V}
			case token.MUL:
				return cpFloat{av.V * bv.V}
			default:
				c := 0
				switch {
				case av.V < bv.V:
					c = -1
				case av.V > bv.V:
					c = 1
				}
				if r := cmp(c); r != nil {
					return r
				}
			}
		}
	case cpNil:
		switch bv := b.(type) {
		case cpNil:
			if r := cmp(0); r != nil {
				return r
			}
		case cpPtr, cpIface, cpFn, *cpRType, cpMap, cpSlice, cpClosure:
			_ = bv
			if r := cmp(1); r != nil && (x.Op == token.EQL || x.Op == token.NEQ) {
				return r
			}
		}
	case *cpRType:
		if x.Op == token.EQL || x.Op == token.NEQ {
			switch bv := b.(type) {
			case cpNil:
				return cmp(1)
			case *cpRType:
				if av == bv {
					return cmp(0)
				}
				return cmp(1)
			}
		}
	case cpMap, cpSlice:
		if _, ok := b.(cpNil); ok && (x.Op == token.EQL || x.Op == token.NEQ) {
			return cmp(1)
		}
	case cpPtr, cpIface, cpFn:
		if _, ok := b.(cpNil); ok && (x.Op == token.EQL || x.Op == token.NEQ) {
			return cmp(1)
		}
		if ap, ok := a.(cpPtr); ok {
			if bp, ok := b.(cpPtr); ok && (x.Op == token.EQL || x.Op == token.NEQ) {
				if ap.C == bp.C {
					return cmp(0)
				}
				return cmp(1)
			}
		}
	case cpUnk, cpLin:
		if bv, ok := b.(cpInt); ok {
			switch x.Op {
			case token.MUL, token.ADD:
				return e.linear(x.Op, a, bv.V, x)
			case token.SUB:
				return e.linear(token.ADD, a, -bv.V, x)
			}
		}
		if au, isU := a.(cpUnk); isU {
			if bs, ok := b.(cpStr); ok {
				switch x.Op {
				case token.EQL:
					return cpUnk{ID: "cmp:" + au.ID + "==" + bs.V}
				case token.NEQ:
					return cpUnk{ID: "!cmp:" + au.ID + "==" + bs.V}
				}
			}
		}
	}
	deps := cpJoinDeps(cpDeps(a), cpDeps(b))
	if bt, ok := x.Type().Underlying().(*types.Basic); ok && bt.Info()&types.IsBoolean != 0 {
		// an unknown compared with an integer constant keeps a name, so that what was assumed about it can be read
		// off the outcome ("cmp:<id><op><k>")
		if au, isU := a.(cpUnk); isU {
			if bk, isK := b.(cpInt); isK {
				return cpUnk{ID: fmt.Sprintf("cmp:%s%s%d", au.ID, x.Op, bk.V), Deps: deps}
			}
		}
		if bu, isU := b.(cpUnk); isU {
			if ak, isK := a.(cpInt); isK {
				return cpUnk{ID: fmt.Sprintf("cmp:%s%s%d", bu.ID, swapOp(x.Op), ak.V), Deps: deps}
			}
		}
		// an unknown compared with nil keeps a name ("cmp:<id>==nil"): the outcome then says which errors were
		// assumed nil on the path
		if x.Op == token.EQL || x.Op == token.NEQ {
			var u cpUnk
			found := false
			if au, isA := a.(cpUnk); isA {
				if _, isN := b.(cpNil); isN {
					u, found = au, true
				}
			}
			if bu, isB := b.(cpUnk); isB && !found {
				if _, isN := a.(cpNil); isN {
					u, found = bu, true
				}
			}
			if found && deps == "" && !strings.HasPrefix(u.ID, "cmp") {
				id := "cmp:" + u.ID + "==nil"
				if x.Op == token.NEQ {
					id = "!" + id
				}
				return cpUnk{ID: id}
			}
		}
		// two unknowns compared for equality: the same unknown is equal to itself; two different ones keep a name
		// (operands in a fixed order) so that the same comparison made twice is decided once, and the outcome says
		// which two values were assumed equal
		if au, isA := a.(cpUnk); isA && (x.Op == token.EQL || x.Op == token.NEQ) {
			if bu, isB := b.(cpUnk); isB && deps == "" {
				if au.ID == bu.ID {
					return cpBool{x.Op == token.EQL}
				}
				lo, hi := au.ID, bu.ID
				if hi < lo {
					lo, hi = hi, lo
				}
				id := "cmp:" + lo + "==" + hi
				if x.Op == token.NEQ {
					id = "!" + id
				}
				return cpUnk{ID: id}
			}
		}
		return e.freshDeps("cmp", deps)
	}
	return e.freshDeps("binop", deps)
}

func (e *cpEngine) linear(op token.Token, u cpVal, k int64, x *ssa.BinOp) cpVal {
	var l cpLin
	switch y := u.(type) {
	case cpUnk:
		l = cpLin{ID: y.ID, Mul: 1, Deps: y.Deps}
	case cpLin:
		l = y
	default:
		return e.fresh("binop")
	}
	if op == token.MUL {
		l.Mul *= k
		l.Add *= k
	} else {
		l.Add += k
	}
	return l
}

func (e *cpEngine) evalCall(fr *cpFrame, x *ssa.Call, depth int) cpVal {
	cc := x.Common()
	if bi, ok := cc.Value.(*ssa.Builtin); ok {
		args := make([]cpVal, len(cc.Args))
		for i, a := range cc.Args {
			args[i] = e.get(fr, a)
		}
		if r, ok := e.builtin(fr, bi.Name(), args, x.Type()); ok {
			return r
		}
		if (bi.Name() == "Sizeof" || bi.Name() == "Alignof") && len(cc.Args) == 1 && !hasTypeParam(cc.Args[0].Type()) {
			// unsafe.Sizeof(T(0)) in an instance of a generic function: a constant of the instance
			if bi.Name() == "Sizeof" {
				return cpInt{e.P.Sizes.Sizeof(cc.Args[0].Type())}
			}
			return cpInt{e.P.Sizes.Alignof(cc.Args[0].Type())}
		}
		return e.resultOf(fr, x, "builtin")
	}
	if cc.IsInvoke() {
		// a method called on a nil interface value: a run-time panic
		if _, isNil := e.get(fr, cc.Value).(cpNil); isNil && cpNilInvokePanics {
			panic(cpAbort{why: "panic-instr"})
		}
		// a method of reflect.Type on a modelled type
		if rt, ok := e.get(fr, cc.Value).(*cpRType); ok {
			args := make([]cpVal, len(cc.Args))
			for i, a := range cc.Args {
				args[i] = e.get(fr, a)
			}
			if r, ok := e.rtypeMethod(rt, cc.Method.Name(), args, x.Type()); ok {
				return r
			}
		}
	}
	g := cc.StaticCallee()
	if g != nil && g.Blocks == nil && g.Origin() != nil && g.Origin().Blocks != nil && e.P.isModuleFunc(g.Origin()) {
		// an instance of a module generic whose type arguments are themselves type parameters has no body
		// of its own: the generic body says what it does
		g = g.Origin()
	}
	if g != nil && !e.P.isModuleFunc(g) {
		args := make([]cpVal, len(cc.Args))
		for i, a := range cc.Args {
			args[i] = e.get(fr, a)
		}
		if qualName(g) == "(*sync.Once).Do" && len(args) == 2 && depth < e.MaxDepth {
			// once.Do(f): f runs on the first call for that Once (a Once the fold does not know is taken to be
			// fresh: the fold asks what the first use of a value does)
			var cell *cpCell
			if p, ok := args[0].(cpPtr); ok {
				cell = p.C
			}
			if cell != nil && e.onceDone[cell] {
				return cpNil{}
			}
			switch f := args[1].(type) {
			case cpClosure:
				if f.Fn.Blocks != nil {
					if cell != nil {
						if e.onceDone == nil {
							e.onceDone = map[*cpCell]bool{}
						}
						e.onceDone[cell] = true
					}
					e.callBound(f.Fn, nil, f.Bind, depth+1)
					return cpNil{}
				}
			case cpFn:
				if f.Fn.Blocks != nil {
					if cell != nil {
						if e.onceDone == nil {
							e.onceDone = map[*cpCell]bool{}
						}
						e.onceDone[cell] = true
					}
					e.call(f.Fn, nil, depth+1)
					return cpNil{}
				}
			}
		}
		if qualName(g) == "reflect.TypeFor" && len(g.TypeArgs()) == 1 {
			if rt := cpRTypeFromGo(e.P, g.TypeArgs()[0], 0); rt != nil {
				return rt
			}
		}
		if r, ok := e.external(qualName(g), args, x.Type()); ok {
			return r
		}
	}
	if g == nil && !cc.IsInvoke() {
		// a call of a function value the fold knows
		switch f := e.get(fr, cc.Value).(type) {
		case cpFn:
			g = f.Fn
		case cpClosure:
			if f.Fn.Blocks != nil && depth < e.MaxDepth {
				args := make([]cpVal, len(cc.Args))
				for i, a := range cc.Args {
					args[i] = e.get(fr, a)
				}
				return e.finishCall(x, e.callBound(f.Fn, args, f.Bind, depth+1))
			}
		case cpIterSeq:
			// seq(yield): yield each value until it says stop
			if len(cc.Args) == 1 {
				y := e.get(fr, cc.Args[0])
				for _, val := range f.Vals {
					var res []cpVal
					switch yf := y.(type) {
					case cpClosure:
						res = e.callBound(yf.Fn, []cpVal{val}, yf.Bind, depth+1)
					case cpFn:
						res = e.call(yf.Fn, []cpVal{val}, depth+1)
					default:
						e.fail("iterator over an unknown yield function")
					}
					if len(res) != 1 {
						e.fail("yield function without a result")
					}
					b, ok := res[0].(cpBool)
					if !ok {
						e.fail("yield function with an unknown result")
					}
					if !b.V {
						break
					}
				}
				return cpNil{}
			}
		}
	}
	if g == nil && cc.IsInvoke() {
		// an interface method call on a value whose dynamic type is known
		if iv, ok := e.get(fr, cc.Value).(cpIface); ok {
			if m := e.P.Prog.LookupMethod(iv.T, cc.Method.Pkg(), cc.Method.Name()); m != nil && e.P.isModuleFunc(m) && m.Blocks != nil && (e.opaque == nil || !e.opaque(m)) {
				args := []cpVal{iv.V}
				for _, a := range cc.Args {
					args = append(args, e.get(fr, a))
				}
				return e.finishCall(x, e.call(m, args, depth+1))
			}
		}
	}
	// a method expression or method value of a type outside the module (time.Time.UnixMicro as a function
	// value): go/ssa gives it a synthetic body that just makes the call, which is folded so that the call
	// is recorded under the method's own name
	thunk := g != nil && g.Blocks != nil && (strings.HasPrefix(g.Synthetic, "thunk") || strings.HasPrefix(g.Synthetic, "bound method wrapper")) && len(g.Blocks) == 1
	if g != nil && (e.P.isModuleFunc(g) || thunk) && g.Blocks != nil && depth < e.MaxDepth && (e.opaque == nil || !e.opaque(g)) {
		args := make([]cpVal, len(cc.Args))
		known := thunk
		for i, a := range cc.Args {
			args[i] = e.get(fr, a)
			if cpKnown(args[i]) {
				known = true
			}
		}
		// with nothing known about the arguments only small helpers are worth folding (a constructor of a literal, a
		// predicate): what they build around the unknowns is still structure
		if known || len(cc.Args) == 0 || len(g.Blocks) <= 6 || e.foldAll {
			return e.finishCall(x, e.call(g, args, depth+1))
		}
	}
	e.record(fr, x, "dynamic")
	var res cpVal
	if g != nil {
		switch qualName(g) {
		case "fmt.Errorf", "errors.New":
			// documented never to return nil
			res = cpIface{T: x.Type(), V: e.fresh("error")}
		}
	}
	if res == nil {
		res = e.resultOf(fr, x, "call:"+x.Name())
		var ds []string
		for _, a := range e.calls[len(e.calls)-1].Args {
			ds = append(ds, cpDeps(a))
		}
		if d := cpJoinDeps(ds...); d != "" {
			switch r := res.(type) {
			case cpUnk:
				r.Deps = d
				res = r
			case cpTuple:
				for i, v := range r.Vs {
					if u, ok := v.(cpUnk); ok {
						u.Deps = d
						r.Vs[i] = u
					}
				}
			}
		}
	}
	e.calls[len(e.calls)-1].Result = res
	return res
}

func (e *cpEngine) finishCall(x *ssa.Call, res []cpVal) cpVal {
	if _, ok := x.Type().(*types.Tuple); ok {
		return cpTuple{Vs: res}
	}
	if len(res) == 1 {
		return res[0]
	}
	return cpNil{}
}

// ---- helpers for building inputs

func cpStructOf(t types.Type, fields map[string]cpVal) cpStruct {
	s := cpStruct{T: t, F: map[int]*cpCell{}}
	st, ok := t.Underlying().(*types.Struct)
	if !ok {
		return s
	}
	for i := 0; i < st.NumFields(); i++ {
		if v, ok := fields[st.Field(i).Name()]; ok {
			s.F[i] = &cpCell{V: v, T: st.Field(i).Type()}
		}
	}
	return s
}

func cpPtrTo(v cpVal, t types.Type) cpPtr { return cpPtr{C: &cpCell{V: v, T: t}} }

// cpFieldByName reads a field of a folded struct value (zero when never written).
func cpFieldByName(v cpVal, name string) (cpVal, bool) {
	s, ok := v.(cpStruct)
	if !ok {
		return nil, false
	}
	st, ok := s.T.Underlying().(*types.Struct)
	if !ok {
		return nil, false
	}
	for i := 0; i < st.NumFields(); i++ {
		if st.Field(i).Name() == name {
			if c, ok := s.F[i]; ok {
				return c.V, true
			}
			return nil, true // zero
		}
	}
	return nil, false
}

// cpStructUnknownExcept builds a struct value whose named fields have the
// given values and every other field is unknown: the shape for a receiver of
// which only some fields are fixed by the question asked.
func cpStructUnknownExcept(t types.Type, fields map[string]cpVal) cpStruct {
	s := cpStruct{T: t, F: map[int]*cpCell{}}
	st, ok := t.Underlying().(*types.Struct)
	if !ok {
		return s
	}
	for i := 0; i < st.NumFields(); i++ {
		if v, ok := fields[st.Field(i).Name()]; ok {
			s.F[i] = &cpCell{V: v, T: st.Field(i).Type()}
		} else {
			s.F[i] = &cpCell{V: cpUnk{ID: "recv." + st.Field(i).Name()}, T: st.Field(i).Type()}
		}
	}
	return s
}

// runDeferred executes one deferred call at function exit: builtins and
// module functions are folded, anything else is recorded.
func (e *cpEngine) runDeferred(fr *cpFrame, d cpDeferred, depth int) {
	cc := d.instr.Common()
	if bi, ok := cc.Value.(*ssa.Builtin); ok {
		e.builtin(fr, bi.Name(), d.args, nil)
		return
	}
	if g := cc.StaticCallee(); g != nil && e.P.isModuleFunc(g) && g.Blocks != nil && depth < e.MaxDepth && (e.opaque == nil || !e.opaque(g)) {
		known := len(d.args) == 0
		for _, a := range d.args {
			if cpKnown(a) {
				known = true
			}
		}
		if known {
			e.call(g, d.args, depth+1)
			return
		}
	}
	name := "deferred"
	if g := cc.StaticCallee(); g != nil {
		name = qualName(g)
	} else if cc.IsInvoke() {
		name = "invoke:" + cc.Method.Name()
	}
	e.calls = append(e.calls, cpCall{Callee: name, Args: d.args, Instr: d.instr})
}

var cpInitCache = map[*Program]map[*ssa.Global]*cpCell{}
var cpInitBusy = map[*Program]bool{}

// cpInitGlobals: what the module's package initialisers leave in the
// package-level variables that nothing else ever writes (initOnlyGlobals): a
// dispatch table filled by init, a constant slice. Found by folding each
// initialiser once; a variable whose initialiser forks or fails keeps no
// value. The cells are shared by all folds: by construction nothing stores
// into them after initialisation.
func cpInitGlobals(P *Program) map[*ssa.Global]*cpCell {
	if g, ok := cpInitCache[P]; ok {
		return g
	}
	if cpInitBusy[P] {
		return nil
	}
	cpInitBusy[P] = true
	defer delete(cpInitBusy, P)
	out := map[*ssa.Global]*cpCell{}
	for _, sp := range []*ssa.Package{P.Avro, P.Time, P.Null} {
		if sp == nil {
			continue
		}
		fn := sp.Func("init")
		if fn == nil || fn.Blocks == nil {
			continue
		}
		e := &cpEngine{P: P, MaxOut: 4, MaxSteps: 60000, MaxForks: 4, MaxDepth: 6, visited: map[*ssa.Function]bool{}, globals: map[*ssa.Global]*cpCell{}, initMode: true}
		e.pending = [][]bool{nil}
		e.decided = map[string]bool{}
		nRuns := 0
		okRun := true
		for len(e.pending) > 0 {
			d := e.pending[len(e.pending)-1]
			e.pending = e.pending[:len(e.pending)-1]
			e.decisions, e.taken, e.steps, e.calls, e.uid, e.decided = d, nil, 0, nil, 0, map[string]bool{}
			_, aborted := e.runTop(fn, nil)
			nRuns++
			if aborted != "" || nRuns > 1 {
				okRun = false
				break
			}
		}
		if !okRun || len(e.pending) > 0 {
			continue
		}
		for g, c := range e.globals {
			if initOnlyGlobals[g] {
				out[g] = c
			}
		}
	}
	cpInitCache[P] = out
	return out
}

// cpSentinelError: a package-level error variable of the module that its initialiser sets to errors.New(...)
// or fmt.Errorf(...) and nothing else ever writes.
func cpSentinelError(g *ssa.Global) bool {
	if !initOnlyGlobals[g] || g.Pkg == nil {
		return false
	}
	init := g.Pkg.Func("init")
	if init == nil {
		return false
	}
	n := 0
	for _, b := range init.Blocks {
		for _, in := range b.Instrs {
			st, ok := in.(*ssa.Store)
			if !ok || st.Addr != ssa.Value(g) {
				continue
			}
			n++
			call, isCall := st.Val.(*ssa.Call)
			if !isCall || call.Call.StaticCallee() == nil {
				return false
			}
			switch qualName(call.Call.StaticCallee()) {
			case "errors.New", "fmt.Errorf":
			default:
				return false
			}
		}
	}
	return n == 1
}
