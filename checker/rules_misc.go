package main

// BT-SENTINEL (C04), RC-RANGE (C03/C17), SZ-FLOAT, VAR-STD (C17).

import (
	"fmt"
	"go/constant"
	"go/token"
	"go/types"
	"math"
	"strings"

	"golang.org/x/tools/go/ssa"
)

func ruleBTSentinel(c *Ctx) {
	c.Rule("BT-SENTINEL", "a schema field absent from the struct is marked with the very constant the record reader tests for, and is then skipped — never decoded — while present fields are decoded, never skipped", 3)
	if rf := recordByFold(c.P); rf.ok {
		P := c.P
		key := "avro.recordCodec/sentinel"
		pos := P.pos(rf.readFn.Pos())
		msg := "the record builder folded for schema (a, gone, b, n1, n2, c) and struct {B, A, X, N1, N2, C chan}, then Read and Skip folded on the codec it returns: " + rf.detail
		c.Check(rf.problems["sentinel"] == "", key, pos, msg, rf.problems["sentinel"])
		c.Check(rf.problems["absent"] == "" && rf.problems["read"] == "", key+"/absent->Skip", pos, msg, rf.problems["absent"]+rf.problems["read"])
		c.Check(rf.problems["present"] == "" && rf.problems["read"] == "", key+"/present->Read", pos, msg, rf.problems["present"]+rf.problems["read"])
		return
	}
	P := c.P
	bt := getBT(P)
	ct := bt.byType["avro.recordCodec"]
	bfn := P.Func(P.Avro, "buildRecordCodec")
	if !c.Anchor(ct != nil && bfn != nil, "record codec and its builder") {
		return
	}
	_, offName, codecName := recordFieldRoles(P)
	if !c.Anchor(offName != "", "record field entry type (one Codec field, one uintptr offset)") {
		return
	}
	// the sentinel the builder stores
	var stored constant.Value
	for _, g := range recordBuilderGroup(P, bfn) {
		for _, b := range g.Blocks {
			for _, in := range b.Instrs {
				st, ok := in.(*ssa.Store)
				if !ok {
					continue
				}
				fa, ok := st.Addr.(*ssa.FieldAddr)
				if !ok || fieldName(fa.X.Type(), fa.Field) != offName {
					continue
				}
				for _, s := range phiSources(st.Val) {
					if k, ok := s.(*ssa.Const); ok {
						if v, ok := (Folder{P}).Fold(k); ok {
							stored = v
						}
					}
				}
			}
		}
	}
	rd := ct.M["Read"]
	var tested constant.Value
	var iff *ssa.If
	for _, b := range rd.Blocks {
		if i, ok := b.Instrs[len(b.Instrs)-1].(*ssa.If); ok {
			if cmp, ok := asCmp(i.Cond, true); ok && cmp.Op == token.EQL {
				if k, isK := cmp.Y.(*ssa.Const); isK && strings.HasSuffix(accessPath(cmp.X), "."+offName+")") || isK && (strings.Contains(accessPath(cmp.X), "."+offName) || strings.Contains(accessPath(cmp.X), ">"+offName)) {
					if v, ok := (Folder{P}).Fold(k); ok {
						tested, iff = v, i
					}
				}
			}
		}
	}
	key := "avro.recordCodec/sentinel"
	if stored == nil || tested == nil {
		c.Bad(key, P.pos(rd.Pos()), "no sentinel offset is stored by the builder or tested by the reader")
		return
	}
	c.Check(constant.Compare(stored, token.EQL, tested), key, P.pos(iff.Pos()), fmt.Sprintf("builder stores %s for an absent field; Read tests for %s", stored.ExactString(), tested.ExactString()), fmt.Sprintf("the builder marks absent fields with %s but Read tests for %s: absent fields would be decoded at a wild offset", stored.ExactString(), tested.ExactString()))
	// true edge: Skip on the same element's codec, no Read; false edge: Read at p+offset of the same element, no Skip
	tb, fb := iff.Block().Succs[0], iff.Block().Succs[1]
	elem := func(v ssa.Value) string { return recvPathOfValue(rd, v, 0) }
	checkEdge := func(blk *ssa.BasicBlock, want, forbid string) (bool, string) {
		region := map[*ssa.BasicBlock]bool{}
		for _, x := range rd.Blocks {
			if blk.Dominates(x) {
				region[x] = true
			}
		}
		found := false
		for x := range region {
			for _, in := range x.Instrs {
				call, ok := in.(*ssa.Call)
				if !ok || !call.Call.IsInvoke() || !isCodecIface(P, call.Call.Value.Type()) {
					continue
				}
				switch call.Call.Method.Name() {
				case want:
					if strings.HasSuffix(elem(call.Call.Value), "[]."+codecName) && x == blk {
						found = true
						if want == "Read" {
							add, ok := call.Call.Args[1].(*ssa.Call)
							if !ok || !strings.HasSuffix(elem(add.Call.Args[1]), "[]."+offName) || add.Call.Args[0] != ssa.Value(rd.Params[len(rd.Params)-1]) {
								return false, "the field is decoded at an address other than p + its own offset"
							}
						}
					}
				case forbid:
					return false, "the " + forbid + " method is called on this edge"
				}
			}
		}
		if !found {
			return false, "no " + want + " of the field's own codec on this edge"
		}
		return true, ""
	}
	ok1, w1 := checkEdge(tb, "Skip", "Read")
	c.Check(ok1 && edgeOnly(iff.Block(), tb), key+"/absent->Skip", P.pos(iff.Pos()), "on the sentinel edge the field's own codec skips the value", "an absent field is not skipped by its own codec: "+w1)
	ok2, w2 := checkEdge(fb, "Read", "Skip")
	c.Check(ok2 && edgeOnly(iff.Block(), fb), key+"/present->Read", P.pos(iff.Pos()), "on the other edge the field's own codec decodes at p + the field's offset", "a present field is not decoded by its own codec at its own offset: "+w2)
}

// intBounds returns MinT, MaxT for a signed integer type.
func intBounds(P *Program, t types.Type) (lo, hi int64, ok bool) {
	b, isB := t.Underlying().(*types.Basic)
	if !isB || b.Info()&types.IsInteger == 0 || b.Info()&types.IsUnsigned != 0 {
		return 0, 0, false
	}
	bits := uint(P.Sizes.Sizeof(t) * 8)
	if bits == 64 {
		return math.MinInt64, math.MaxInt64, true
	}
	return -(1 << (bits - 1)), 1<<(bits-1) - 1, true
}

func ruleRCRange(c *Ctx) {
	c.Rule("RC-RANGE", "an integer is stored into a narrower destination only inside the destination type's exact range [MinT, MaxT]", 3)
	P := c.P
	for _, ct := range P.CodecTypes() {
		if !strings.HasPrefix(ct.Name, "avro.IntCodec[") {
			continue
		}
		fn := ct.M["Read"]
		key := ct.Name + ".Read/range"
		// the store *(*T)(p) = T(i)
		var st *ssa.Store
		for _, b := range fn.Blocks {
			for _, in := range b.Instrs {
				if s, ok := in.(*ssa.Store); ok {
					if cv, ok := s.Addr.(*ssa.Convert); ok && isUnsafePointer(cv.X.Type()) {
						st = s
					}
				}
			}
		}
		if st == nil {
			c.Unk(key, P.pos(fn.Pos()), "no store through the destination pointer found")
			continue
		}
		T := st.Addr.Type().Underlying().(*types.Pointer).Elem()
		lo, hi, ok := intBounds(P, T)
		if !ok {
			c.Unk(key, P.pos(st.Pos()), "destination is not a signed integer type")
			continue
		}
		src := stripConv(st.Val)
		if !isVarintResult(src) {
			c.Unk(key, P.pos(st.Pos()), "the stored value is not the decoded varint")
			continue
		}
		// effective bounds from the facts at the store
		effLo, effHi := int64(math.MinInt64), int64(math.MaxInt64)
		for _, cmp := range cmpFactsAt(st.Block()) {
			x, y, op := cmp.X, cmp.Y, cmp.Op
			if stripConv(y) == src {
				x, y, op = y, x, swapOp(op)
			}
			if stripConv(x) != src {
				continue
			}
			k, ok := (Folder{P}).FoldInt(y)
			if !ok {
				continue
			}
			switch op {
			case token.LEQ:
				if k < effHi {
					effHi = k
				}
			case token.LSS:
				if k-1 < effHi {
					effHi = k - 1
				}
			case token.GEQ:
				if k > effLo {
					effLo = k
				}
			case token.GTR:
				if k+1 > effLo {
					effLo = k + 1
				}
			}
		}
		c.Check(effLo == lo && effHi == hi, key, P.pos(st.Pos()), fmt.Sprintf("the store into %s is reached only for %d <= i <= %d", T, effLo, effHi),
			fmt.Sprintf("the store into %s is reached for %d <= i <= %d, the type holds [%d, %d]: out-of-range values are silently truncated or in-range values rejected", T, effLo, effHi, lo, hi))
	}
}

func ruleC17(c *Ctx) {
	P := c.P
	bt := getBT(P)
	c.Rule("SZ-FLOAT", "floats are read, skipped and written as exactly sizeof(T) bytes by plain copy; a float32 carried as a double is converted on both sides of an 8-byte copy", 9)
	w := getWA(P)
	for _, ct := range bt.Codecs {
		if !strings.HasPrefix(ct.Name, "avro.floatCodec[") && ct.Name != "avro.Float32DoubleCodec" {
			continue
		}
		want := "B8"
		if ct.Name == "avro.floatCodec[float32]" {
			want = "B4"
		}
		for _, m := range []string{"Read", "Skip", "Write"} {
			n, probs := w.get(ct, m, false)
			words := n.words(3, 4)
			c.Check(len(probs) == 0 && len(words) == 1 && words[0] == want, ct.Name+"."+m+"/size", P.pos(ct.M[m].Pos()), m+" transfers exactly "+want, fmt.Sprintf("%s transfers %v, the type needs exactly %s", m, words, want))
		}
	}
	ruleFLTotal(c)
	c.Rule("SZ-FLOAT", "", 0)
	if ct := bt.byType["avro.Float32DoubleCodec"]; ct != nil {
		// Read: float32(f) store; Write: float64(*(*float32)(p)) into the 8-byte temp
		okR, okW := false, false
		for _, b := range ct.M["Read"].Blocks {
			for _, in := range b.Instrs {
				if st, ok := in.(*ssa.Store); ok {
					if cv, ok := st.Val.(*ssa.Convert); ok && typeKey(cv.Type()) == "float32" && typeKey(cv.X.Type()) == "float64" {
						okR = true
					}
				}
			}
		}
		for _, b := range ct.M["Write"].Blocks {
			for _, in := range b.Instrs {
				if st, ok := in.(*ssa.Store); ok {
					if cv, ok := st.Val.(*ssa.Convert); ok && typeKey(cv.Type()) == "float64" && typeKey(cv.X.Type()) == "float32" {
						okW = true
					}
				}
			}
		}
		c.Check(okR, ct.Name+".Read/narrow", P.pos(ct.M["Read"].Pos()), "the double read is converted to float32 before the 4-byte store", "Read does not convert the double to float32")
		c.Check(okW, ct.Name+".Write/widen", P.pos(ct.M["Write"].Pos()), "the float32 is converted to float64 before the 8-byte write", "Write does not widen the float32 to a double")
	}
	ruleVarStd(c)
}

// ruleVarStd: VAR-STD (C17, C02).
// handEncoders: helpers recognised as the base-128 loop of a hand-written WriteBuf.Varint.
var handEncoders = map[*ssa.Function]bool{}

func ruleVarStd(c *Ctx) {
	P := c.P
	c.Rule("VAR-STD", "varints are encoded only by the standard library's encoders (shortest form, at most ten bytes)", 3)
	n := 0
	for _, fn := range P.ModuleFuncs() {
		for _, cs := range callsIn(fn) {
			if cs.Static == nil {
				continue
			}
			q := qualName(cs.Static)
			if q == "encoding/binary.AppendVarint" || q == "encoding/binary.PutVarint" {
				n++
				c.OK(fmt.Sprintf("%s/encode#%d", fnKey(fn), n), P.pos(cs.Instr.Pos()), q)
			}
		}
	}
	// the write buffer's Varint is one of them and nothing else
	wbT := P.NamedType(P.Avro, "WriteBuf")
	if m := P.Method(wbT, "Varint"); c.Anchor(m != nil, "(*WriteBuf).Varint") {
		ok := len(m.Blocks) == 1
		cnt := 0
		for _, cs := range callsIn(m) {
			if cs.Static != nil && qualName(cs.Static) == "encoding/binary.AppendVarint" && cs.Common.Args[1] == ssa.Value(m.Params[1]) {
				cnt++
			} else if _, isB := cs.Common.Value.(*ssa.Builtin); !isB {
				ok = false
			}
		}
		if ok && cnt == 1 {
			c.OK(fnKey(m)+"/std", P.pos(m.Pos()), "exactly binary.AppendVarint(w.buf, v)")
		} else {
			bufF0 := uniqueFieldWhere(wbT, func(t types.Type) bool {
				sl, ok := t.Underlying().(*types.Slice)
				return ok && isBasicKind(sl.Elem(), types.Byte)
			})
			verdict, msg, hs := handVarint(P, m, bufF0)
			for h := range hs {
				handEncoders[h] = true
			}
			switch verdict {
			case 1:
				c.OK(fnKey(m)+"/std", P.pos(m.Pos()), "recognised by shape: zig-zag of the 64-bit argument, emitted seven bits at a time with continuation bits (or by the standard encoder), single-byte fast paths only where the zig-zag value is below 0x80")
			case -1:
				c.Bad(fnKey(m)+"/std", P.pos(m.Pos()), msg)
			default:
				c.Unk(fnKey(m)+"/std", P.pos(m.Pos()), "WriteBuf.Varint is neither a single call of binary.AppendVarint on its argument nor a hand-written encoder of a recognised shape ("+msg+")")
			}
		}
	}
	// no second encoder: the write buffer grows only through Varint, Byte and Write (and Reset truncates);
	// a codec that appended varints by any other route would bypass the standard library's encoder
	if wbT != nil {
		bufF := uniqueFieldWhere(wbT, func(t types.Type) bool {
			sl, ok := t.Underlying().(*types.Slice)
			return ok && isBasicKind(sl.Elem(), types.Byte)
		})
		for _, fn := range P.ModuleFuncs() {
			for _, b := range fn.Blocks {
				for _, in := range b.Instrs {
					st, ok := in.(*ssa.Store)
					if !ok {
						continue
					}
					fa, ok := st.Addr.(*ssa.FieldAddr)
					if !ok || typeKey(fa.X.Type()) != "*avro.WriteBuf" || fieldName(fa.X.Type(), fa.Field) != bufF {
						continue
					}
					name := fn.Name()
					isMethod := fn.Signature.Recv() != nil && typeKey(fn.Signature.Recv().Type()) == "*avro.WriteBuf"
					if _, fresh := fa.X.(*ssa.Alloc); fresh {
						continue // constructor
					}
					// raw bytes appended in place of w.Write / w.Byte are not an encoder: a payload slice or string, or
					// single bytes that are constants (or chosen among constants); the standard encoder called directly
					// on the buffer is the standard encoder
					plain := false
					if call, isCall := st.Val.(*ssa.Call); isCall && innermostLoop(fn, b) == nil {
						if isBuiltinCall(call, "append") && len(call.Call.Args) == 2 {
							arg := call.Call.Args[1]
							plain = true
							if sl, isSl := arg.(*ssa.Slice); isSl {
								if a, isA := sl.X.(*ssa.Alloc); isA {
									if _, isArr := a.Type().Underlying().(*types.Pointer).Elem().Underlying().(*types.Array); isArr {
										// append(buf, b0, ...): each element stored must be a constant or a phi of constants
										for _, r := range referrersOf(a) {
											ia, ok := r.(*ssa.IndexAddr)
											if !ok {
												continue
											}
											for _, r2 := range referrersOf(ia) {
												if es, ok := r2.(*ssa.Store); ok && es.Addr == ssa.Value(ia) {
													for _, src := range phiSources(es.Val) {
														if _, isK := src.(*ssa.Const); !isK {
															plain = false
														}
													}
												}
											}
										}
									}
								}
							}
						}
						if sc := call.Call.StaticCallee(); sc != nil && qualName(sc) == "encoding/binary.AppendVarint" {
							plain = true
						}
					}
					switch {
					case isMethod && (name == "Varint" || name == "Byte" || name == "Write" || name == "Reset"):
					case handEncoders[fn]:
						// the base-128 loop of a hand-written Varint, judged with it
					case plain:
					default:
						c.Unk(fnKey(fn)+"/other-writer", P.pos(st.Pos()), "the write buffer is appended to outside WriteBuf.Varint/Byte/Write: a second encoder, whose varints are not known to be the standard library's shortest form of the 64-bit value")
					}
				}
			}
		}
	}
}

// ---------- DST-FRESH (C01, C03, C10)

// isEntryValue: v is the result of the New call nw, or that result replaced, where it is nil, by a fresh
// allocation from the read buffer or its bank made in the same turn of the loop l (nil: anywhere in the
// function, which is then the per-entry helper).
func isEntryValue(v ssa.Value, nw *ssa.Call, l *Loop) bool {
	if v == ssa.Value(nw) {
		return true
	}
	phi, ok := v.(*ssa.Phi)
	if !ok {
		return false
	}
	sawNew := false
	for _, e := range phi.Edges {
		if e == ssa.Value(nw) {
			sawNew = true
			continue
		}
		call, isCall := e.(*ssa.Call)
		if !isCall {
			return false
		}
		g := call.Call.StaticCallee()
		if g == nil || g.Name() != "Alloc" || g.Signature.Recv() == nil {
			return false
		}
		switch typeKey(derefType(g.Signature.Recv().Type())) {
		case "avro.ReadBuf", "avro.ResourceBank":
		default:
			return false
		}
		if l != nil && !l.Blocks[call.Block()] {
			return false
		}
	}
	return sawNew
}

func ruleDstFresh(c *Ctx) {
	c.Rule("DST-FRESH", "every element of a collection is decoded into storage of its own: a map value allocated for that entry, an array slot indexed by the length as incremented for that item", 3)
	P := c.P
	bt := getBT(P)
	if ct := bt.byType["avro.MapCodec"]; c.Anchor(ct != nil, "avro.MapCodec") {
		fn := ct.M["Read"]
		key := ct.Name + ".Read/value-per-entry"
		var rd, nw *ssa.Call
		var assign *ssa.Call
		for _, cs := range callsIn(fn) {
			if cs.Iface != nil && isCodecIface(P, cs.Common.Value.Type()) && cs.Value() != nil {
				switch cs.Iface.Name() {
				case "Read":
					rd = cs.Value()
				case "New":
					nw = cs.Value()
				}
			}
			if cs.Static != nil && cs.Static.Name() == "mapassign" {
				assign = cs.Value()
			}
		}
		if rd == nil || assign == nil {
			// the per-entry work may live in a helper called from the entry loop
			okH, found := false, false
			for _, cs := range callsIn(fn) {
				h := cs.Static
				if h == nil || !P.isModuleFunc(h) || h.Blocks == nil || cs.Value() == nil {
					continue
				}
				var hrd, hnw, hasg *ssa.Call
				for _, hc := range callsIn(h) {
					if hc.Iface != nil && isCodecIface(P, hc.Common.Value.Type()) && hc.Value() != nil {
						switch hc.Iface.Name() {
						case "Read":
							hrd = hc.Value()
						case "New":
							hnw = hc.Value()
						}
					}
					if hc.Static != nil && hc.Static.Name() == "mapassign" {
						hasg = hc.Value()
					}
				}
				if hrd == nil || hasg == nil {
					continue
				}
				found = true
				if hl := innermostLoop(h, hrd.Block()); hl != nil {
					// the helper holds the entry loop itself (it reads the entries of one block)
					okL := hnw != nil && isEntryValue(hrd.Call.Args[1], hnw, hl) && hasg.Call.Args[3] == hrd.Call.Args[1] &&
						recvPathOfValue(h, hnw.Call.Value, 0) == recvPathOfValue(h, hrd.Call.Value, 0) &&
						hl.Blocks[hnw.Block()] && oncePerIteration(h, hl, hnw) && oncePerIteration(h, hl, hrd) && oncePerIteration(h, hl, hasg)
					c.Check(okL, key, P.pos(hrd.Pos()), "in the helper that reads a block's entries valueCodec.New(r) is called once per entry, in the entry loop, and its result is what is decoded into and assigned", "the value decoded into is not allocated once per map entry: entries whose codec does not overwrite everything (nulls, pointers, slices, nested maps) inherit or share the previous entry's value")
					continue
				}
				l := innermostLoop(fn, cs.Block)
				okH = hnw != nil && l != nil && oncePerIteration(fn, l, cs.Instr) &&
					isEntryValue(hrd.Call.Args[1], hnw, nil) && hasg.Call.Args[3] == hrd.Call.Args[1] &&
					recvPathOfValue(h, hnw.Call.Value, 0) == recvPathOfValue(h, hrd.Call.Value, 0) &&
					innermostLoop(h, hnw.Block()) == nil && dominatesInstr(hnw, hrd) && dominatesInstr(hrd, hasg)
				c.Check(okH, key, P.pos(cs.Instr.Pos()), "the per-entry helper is called once per entry; in it valueCodec.New(r) runs once and its result is what is decoded into and assigned", "the value decoded into is not allocated once per map entry: entries whose codec does not overwrite everything (nulls, pointers, slices, nested maps) inherit or share the previous entry's value")
			}
			if !found {
				c.Unk(key, P.pos(fn.Pos()), "no value decode or mapassign found in the map reader")
			}
		} else {
			l := innermostLoop(fn, rd.Block())
			ok := nw != nil && l != nil && isEntryValue(rd.Call.Args[1], nw, l) && assign.Call.Args[3] == rd.Call.Args[1] &&
				recvPathOfValue(fn, nw.Call.Value, 0) == recvPathOfValue(fn, rd.Call.Value, 0) &&
				l.Blocks[nw.Block()] && oncePerIteration(fn, l, nw) && oncePerIteration(fn, l, rd) && oncePerIteration(fn, l, assign)
			c.Check(ok, key, P.pos(rd.Pos()), "valueCodec.New(r) is called once per entry, in the entry loop, and its result is what is decoded into and assigned", "the value decoded into is not allocated once per map entry: entries whose codec does not overwrite everything (nulls, pointers, slices, nested maps) inherit or share the previous entry's value")
		}
		// the key is a fresh local per entry
		var keyRead *ssa.Call
		for _, cs := range callsIn(fn) {
			if cs.Static != nil && cs.Static.Name() == "Read" && cs.Static.Signature.Recv() != nil && cs.Value() != nil && cs != nil && !strings.Contains(qualNameShort(cs.Static), "ReadBuf") {
				keyRead = cs.Value()
			}
		}
		keyFn := fn
		if keyRead == nil {
			// in a per-entry helper: a local of the helper is created per call, i.e. per entry
			for _, cs := range callsIn(fn) {
				h := cs.Static
				if h == nil || !P.isModuleFunc(h) || h.Blocks == nil || innermostLoop(fn, cs.Block) == nil {
					continue
				}
				for _, hc := range callsIn(h) {
					if hc.Static != nil && hc.Static.Name() == "Read" && hc.Static.Signature.Recv() != nil && hc.Value() != nil && !strings.Contains(qualNameShort(hc.Static), "ReadBuf") {
						keyRead, keyFn = hc.Value(), h
					}
				}
			}
		}
		if keyRead != nil && keyFn != fn {
			X, isAddr := addrOfVar(keyRead.Call.Args[len(keyRead.Call.Args)-1])
			okKey := isAddr && typeKey(X) == "string"
			if okKey {
				cv := keyRead.Call.Args[len(keyRead.Call.Args)-1].(*ssa.Convert)
				_, okKey = cv.X.(*ssa.Alloc)
			}
			c.Check(okKey, ct.Name+".Read/key-per-entry", P.pos(keyRead.Pos()), "the key is decoded into a string variable of the per-entry helper", "the map key is not decoded into a per-entry variable")
		} else if keyRead != nil {
			X, isAddr := addrOfVar(keyRead.Call.Args[len(keyRead.Call.Args)-1])
			l := innermostLoop(fn, keyRead.Block())
			okKey := isAddr && typeKey(X) == "string" && l != nil
			if okKey {
				cv := keyRead.Call.Args[len(keyRead.Call.Args)-1].(*ssa.Convert)
				a, isAlloc := cv.X.(*ssa.Alloc)
				okKey = isAlloc && l.Blocks[a.Block()]
			}
			c.Check(okKey, ct.Name+".Read/key-per-entry", P.pos(keyRead.Pos()), "the key is decoded into a string variable created in the entry loop", "the map key is not decoded into a per-entry variable")
		}
	}
	if ct := bt.byType["avro.arrayCodec"]; c.Anchor(ct != nil, "avro.arrayCodec") {
		fn := ct.M["Read"]
		key := ct.Name + ".Read/slot-per-item"
		var rd *ssa.Call
		for _, cs := range callsIn(fn) {
			if cs.Iface != nil && cs.Iface.Name() == "Read" && isCodecIface(P, cs.Common.Value.Type()) && cs.Value() != nil {
				rd = cs.Value()
			}
		}
		if rd == nil {
			c.Unk(key, P.pos(fn.Pos()), "no item decode found in the array reader")
			return
		}
		l := innermostLoop(fn, rd.Block())
		// the cursor uses a load of the header's Len made in the loop; Len is stored +1 once per iteration after the decode
		lenLoadInLoop := false
		var walk func(v ssa.Value, d int)
		walk = func(v ssa.Value, d int) {
			if d > 8 || v == nil {
				return
			}
			switch y := v.(type) {
			case *ssa.Convert:
				walk(y.X, d+1)
			case *ssa.BinOp:
				walk(y.X, d+1)
				walk(y.Y, d+1)
			case *ssa.UnOp:
				if y.Op == token.MUL && strings.HasSuffix(accessPath(y.X), "->Len") && l != nil && l.Blocks[y.Block()] {
					lenLoadInLoop = true
				}
			case *ssa.Call:
				for _, a := range y.Call.Args {
					walk(a, d+1)
				}
			}
		}
		walk(rd.Call.Args[1], 0)
		var incr *ssa.Store
		for _, b := range fn.Blocks {
			for _, in := range b.Instrs {
				if st, ok := in.(*ssa.Store); ok && strings.HasSuffix(accessPath(st.Addr), "->Len") {
					if bo, ok := st.Val.(*ssa.BinOp); ok && bo.Op == token.ADD {
						if one, ok := constInt(bo.Y); ok && one == 1 {
							incr = st
						}
					}
				}
			}
		}
		ok := l != nil && lenLoadInLoop && incr != nil && l.Blocks[incr.Block()] && oncePerIteration(fn, l, rd) && dominatesInstr(rd, incr)
		if ok {
			for _, la := range l.Latches {
				if !incr.Block().Dominates(la) {
					ok = false
				}
			}
		}
		c.Check(ok, key, P.pos(rd.Pos()), "each item is decoded at Data + Len*size with Len read in that iteration and incremented once after the decode", "items are not decoded into consecutive slots: the slot index is not the length as incremented once per decoded item")
	}
}

// ---------- ARR-BOUND (C05, C06)

func ruleArrBound(c *Ctx) {
	c.Rule("ARR-BOUND", "before a block's items are decoded the slice is grown by exactly the number of items the loop will store, and the growth helper guarantees capacity for length + that number", 2)
	P := c.P
	bt := getBT(P)
	ct := bt.byType["avro.arrayCodec"]
	if !c.Anchor(ct != nil, "avro.arrayCodec") {
		return
	}
	fn := ct.M["Read"]
	var rd *ssa.Call
	for _, cs := range callsIn(fn) {
		if cs.Iface != nil && cs.Iface.Name() == "Read" && isCodecIface(P, cs.Common.Value.Type()) && cs.Value() != nil {
			rd = cs.Value()
		}
	}
	if !c.Anchor(rd != nil, "item decode in arrayCodec.Read") {
		return
	}
	l := innermostLoop(fn, rd.Block())
	var cl *Counted
	if l != nil {
		cl = countedLoop(l)
	}
	key := ct.Name + ".Read"
	if cl == nil || cl.TripCount() == nil {
		c.Unk(key+"/item-loop", P.pos(rd.Pos()), "the item loop is not a recognised counted loop")
		return
	}
	n := stripConv(cl.TripCount())
	// the growth call: a module method on the receiver taking (sliceHeader, int) returning sliceHeader, before the loop
	var grow *ssa.Call
	for _, cs := range callsIn(fn) {
		if cs.Static != nil && P.isModuleFunc(cs.Static) && cs.Value() != nil && cs.Static.Signature.Results().Len() == 1 && typeKey(cs.Static.Signature.Results().At(0).Type()) == "avro.sliceHeader" {
			grow = cs.Value()
		}
	}
	if grow == nil {
		// the growth helper may work in place on the header: (rc).grow(sh *sliceHeader, n int)
		for _, cs := range callsIn(fn) {
			h := cs.Static
			if h == nil || !P.isModuleFunc(h) || h.Signature.Recv() == nil || h.Blocks == nil {
				continue
			}
			var hp, np *ssa.Parameter
			for _, p := range h.Params[1:] {
				if typeKey(p.Type()) == "*avro.sliceHeader" {
					hp = p
				} else if isBasicKind(p.Type(), types.Int) {
					np = p
				}
			}
			call, _ := cs.Instr.(*ssa.Call)
			if hp != nil && np != nil && call != nil {
				arrElementStores(c, P, fn, key, rd)
				arrBoundInPlace(c, P, fn, key, rd, cl, l, n, call, h, hp, np)
				return
			}
		}
		c.Bad(key+"/grow-before-items", P.pos(rd.Pos()), "no growth of the destination slice precedes the item loop")
		return
	}
	arg := stripConv(grow.Call.Args[len(grow.Call.Args)-1])
	stored := false
	for _, r := range referrersOf(grow) {
		if st, ok := r.(*ssa.Store); ok && st.Val == ssa.Value(grow) {
			// stored through the header pointer the item addresses are computed from
			hdr := accessPath(st.Addr)
			if hdr != "" && exprMentions(rd.Call.Args[1], hdr+"->Data", 0) {
				stored = true
			}
		}
	}
	arrElementStores(c, P, fn, key, rd)
	okArg := arg == n && grow.Block().Dominates(cl.Header) && !l.Blocks[grow.Block()]
	c.Check(okArg && stored, key+"/grow-by-trip-count", P.pos(grow.Pos()), "the slice is grown by exactly the item loop's trip count, once per block, and the grown header is the one the items are stored through", "the slice is grown by a different amount than the number of items the loop then stores (or into a different header): items are written past the capacity of the backing array")
	// the helper: returns its input only under Len+n <= Cap; otherwise a header whose Cap is Len+n
	h := grow.Call.StaticCallee()
	hk := fnKey(h)
	var inP, nP *ssa.Parameter
	hps := h.Params
	if h.Signature.Recv() != nil {
		hps = hps[1:]
	}
	for _, p := range hps {
		if typeKey(p.Type()) == "avro.sliceHeader" {
			inP = p
		} else if isBasicKind(p.Type(), types.Int) {
			nP = p
		}
	}
	if inP == nil || nP == nil {
		c.Unk(hk+"/shape", P.pos(h.Pos()), "growth helper does not take (sliceHeader, n)")
		return
	}
	okKeep, okNew := false, false
	isLenPlusN := func(v ssa.Value) bool {
		bo, ok := stripConv(v).(*ssa.BinOp)
		if !ok || bo.Op != token.ADD {
			return false
		}
		a, b := accessPath(bo.X), accessPath(bo.Y)
		return (strings.HasSuffix(a, "->Len)") && bo.Y == ssa.Value(nP)) || (strings.HasSuffix(b, "->Len)") && bo.X == ssa.Value(nP))
	}
	for _, r := range returnsOf(h) {
		v := resolvedResults(r)[0]
		ld, isLoad := v.(*ssa.UnOp)
		if !isLoad {
			continue
		}
		a, _ := ld.X.(*ssa.Alloc)
		isInput := false
		if a != nil {
			for _, rr := range referrersOf(a) {
				if st, ok := rr.(*ssa.Store); ok && st.Addr == ssa.Value(a) && st.Val == ssa.Value(inP) {
					isInput = true
				}
			}
		}
		if isInput {
			for _, cmp := range cmpFactsAt(r.Block()) {
				if cmp.Op == token.LEQ && isLenPlusN(cmp.X) && strings.HasSuffix(accessPath(cmp.Y), "->Cap)") {
					okKeep = true
				}
				if cmp.Op == token.GEQ && isLenPlusN(cmp.Y) && strings.HasSuffix(accessPath(cmp.X), "->Cap)") {
					okKeep = true
				}
			}
			continue
		}
		// a new header: its Cap field (through the literal copy) is Len+n and the array is allocated with that Cap
		if a != nil {
			capLoad := &ssa.UnOp{}
			_ = capLoad
			for _, cs := range callsIn(h) {
				if cs.Static != nil && cs.Static.Name() == "unsafe_NewArray" {
					if ldc, ok := cs.Common.Args[1].(*ssa.UnOp); ok {
						if v2 := fieldThroughStructCopy(ldc); v2 != nil && isLenPlusN(v2) {
							okNew = true
						}
						if st := reachingStore(ldc); st != nil && isLenPlusN(st.Val) {
							okNew = true
						}
					}
					if isLenPlusN(cs.Common.Args[1]) {
						okNew = true
					}
				}
			}
		}
	}
	c.Check(okKeep && okNew, hk+"/capacity", P.pos(h.Pos()), "returns its input only where Len+n <= Cap, otherwise a new array of exactly Len+n elements", "the growth helper can return a slice whose capacity is below Len+n")
	// the capacity the new header advertises is the number of elements actually allocated, not more
	resolveN := func(v ssa.Value) ssa.Value {
		if ld, ok := v.(*ssa.UnOp); ok && ld.Op == token.MUL {
			if v2 := fieldThroughStructCopy(ld); v2 != nil {
				return v2
			}
			if st := reachingStore(ld); st != nil {
				return st.Val
			}
		}
		return v
	}
	var allocN ssa.Value
	for _, cs := range callsIn(h) {
		if cs.Static != nil && cs.Static.Name() == "unsafe_NewArray" && len(cs.Common.Args) == 2 {
			allocN = resolveN(cs.Common.Args[1])
		}
	}
	okCap, nCap := true, 0
	for _, b := range h.Blocks {
		for _, in := range b.Instrs {
			st, ok := in.(*ssa.Store)
			if !ok {
				continue
			}
			fa, ok := st.Addr.(*ssa.FieldAddr)
			if !ok || typeKey(fa.X.Type()) != "*avro.sliceHeader" || fieldName(fa.X.Type(), fa.Field) != "Cap" {
				continue
			}
			nCap++
			cv := resolveN(st.Val)
			if allocN == nil || !(cv == allocN || isLenPlusN(cv) && isLenPlusN(allocN)) {
				okCap = false
			}
		}
	}
	if nCap > 0 {
		c.Check(okCap, hk+"/cap-is-allocation", P.pos(h.Pos()), "the Cap stored in the new header is the element count handed to unsafe_NewArray", "the growth helper advertises a capacity other than the number of elements it allocates: later items are written past the end of the allocation, into memory the collector does not scan as part of it")
	}
}

// ---------- RC-VARINT (C17)

func ruleRCVarint(c *Ctx) {
	P := c.P
	// decided by folding when the fold of the decoder went through for every buffer length (UV-FOLD): the shape
	// reading below is then only a second spelling of the same clause, and a brittle one
	if _, done := uvFoldLast[P]; !done {
		sub := newCtx(P, c.Property, c.Tier)
		ruleUVFold(sub)
	}
	if v := uvFoldLast[P]; len(v) == 11 {
		all, bad := true, ""
		for n := 1; n <= 11; n++ {
			if strings.HasPrefix(v[n], "?") {
				all = false
			} else if v[n] != "" && bad == "" {
				bad = v[n]
			}
		}
		if all {
			c.Rule("RC-VARINT", "a varint is accepted only within ten bytes, and a tenth byte only if it contributes a single bit (no 64-bit overflow)", 1)
			rbT := P.NamedType(P.Avro, "ReadBuf")
			vfn := P.Method(rbT, "Varint")
			c.Check(bad == "", fnKey(vfn)+"/accept", P.pos(vfn.Pos()), "decided by folding the decoder on buffers of 1 to 11 named bytes (UV-FOLD): ten bytes at most, the tenth 0 or 1", bad)
			return
		}
	}
	c.Rule("RC-VARINT", "a varint is accepted only within ten bytes, and a tenth byte only if it contributes a single bit (no 64-bit overflow)", 1)
	rbT := P.NamedType(P.Avro, "ReadBuf")
	vfn := P.Method(rbT, "Varint")
	if !c.Anchor(vfn != nil, "(*ReadBuf).Varint") {
		return
	}
	var dec *ssa.Function
	for _, cs := range callsIn(vfn) {
		if cs.Static != nil && P.isModuleFunc(cs.Static) && len(loopsOf(cs.Static)) > 0 {
			dec = cs.Static
		}
	}
	if dec == nil && len(loopsOf(vfn)) > 0 {
		dec = vfn
	}
	if !c.Anchor(dec != nil, "the varint decoding loop") {
		return
	}
	key := fnKey(dec) + "/accept"
	// the byte read in the loop and the iteration counter
	var b ssa.Value
	for _, cs := range callsIn(dec) {
		if cs.Static != nil && qualNameShort(cs.Static) == "(*ReadBuf).ReadByte" && cs.Value() != nil {
			b = extractOf(cs.Value(), 0)
		}
	}
	if b == nil {
		// ReadByte inlined: the byte is buf[cursor]
		for _, blk := range dec.Blocks {
			for _, in := range blk.Instrs {
				if ld, ok := in.(*ssa.UnOp); ok && ld.Op == token.MUL {
					if ia, ok := ld.X.(*ssa.IndexAddr); ok && isBasicKind(ld.Type(), types.Byte) {
						if bl, ok := ia.X.(*ssa.UnOp); ok && bl.Op == token.MUL {
							if fa, ok := bl.X.(*ssa.FieldAddr); ok && typeKey(fa.X.Type()) == "*avro.ReadBuf" && innermostLoop(dec, blk) != nil {
								b = ld
							}
						}
					}
				}
			}
		}
	}
	step := int64(1) // the counter may be the byte index (step 1) or the shift (step 7)
	var iPhi *ssa.Phi
	for _, l := range loopsOf(dec) {
		for _, in := range l.Header.Instrs {
			phi, ok := in.(*ssa.Phi)
			if !ok {
				continue
			}
			if bt, isB := phi.Type().Underlying().(*types.Basic); !isB || bt.Kind() != types.Int && bt.Kind() != types.Uint {
				continue
			}
			isCounter := false
			phiStep := int64(1)
			for _, e := range phi.Edges {
				if bo, ok := e.(*ssa.BinOp); ok && bo.Op == token.ADD && bo.X == ssa.Value(phi) {
					if one, ok := constInt(bo.Y); ok && (one == 1 || one == 7) {
						isCounter = true
						phiStep = one
					}
				}
			}
			zeroInit := false
			for _, e := range phi.Edges {
				if z, ok := constInt(e); ok && z == 0 {
					zeroInit = true
				}
			}
			if isCounter && zeroInit && (iPhi == nil || phiStep == 1) {
				iPhi, step = phi, phiStep
			}
		}
	}
	if b == nil || iPhi == nil {
		c.Unk(key, P.pos(dec.Pos()), "no byte read or zero-based iteration counter found in the decoding loop")
		return
	}
	def, _ := successReturns(dec)
	if len(def) == 0 {
		c.Unk(key, P.pos(dec.Pos()), "no success return in the varint decoder")
		return
	}
	bad := ""
	bounds := func(facts []Cmp) (iMax int64, bMax int64) {
		iMax, bMax = 1<<40, 255
		for _, cmp := range facts {
			x, y, op := cmp.X, cmp.Y, cmp.Op
			if _, isK := x.(*ssa.Const); isK {
				x, y, op = y, x, swapOp(op)
			}
			k, ok := constInt(y)
			if !ok {
				continue
			}
			var tgt *int64
			if x == ssa.Value(iPhi) {
				tgt = &iMax
				// in units of the byte index
				switch op {
				case token.LSS:
					k = (k+step-1)/step - 1
					op = token.LEQ
				default:
					k = k / step
				}
			} else if stripConv(x) == b || x == b {
				tgt = &bMax
			} else {
				continue
			}
			switch op {
			case token.LEQ:
				if k < *tgt {
					*tgt = k
				}
			case token.LSS:
				if k-1 < *tgt {
					*tgt = k - 1
				}
			case token.EQL:
				if k < *tgt {
					*tgt = k
				}
			}
		}
		return
	}
	for _, r := range def {
		blk := r.Block()
		var edges [][]Cmp
		nonBack := 0
		for _, p := range blk.Preds {
			if !blk.Dominates(p) {
				nonBack++
			}
		}
		if nonBack <= 1 {
			edges = append(edges, cmpFactsAt(blk))
		} else {
			for _, p := range blk.Preds {
				edges = append(edges, cmpFactsOnEdge(p, blk))
			}
		}
		for _, facts := range edges {
			iMax, bMax := bounds(facts)
			// is the index known to differ from 9 on this edge?
			ne9 := false
			for _, cmp := range facts {
				if cmp.Op == token.NEQ && cmp.X == ssa.Value(iPhi) {
					if k, ok := constInt(cmp.Y); ok && k == 9*step {
						ne9 = true
					}
				}
			}
			switch {
			case iMax > 9:
				bad = fmt.Sprintf("a terminating byte is accepted at index up to %d (an eleventh byte)", iMax)
			case iMax == 9 && !ne9 && bMax > 1:
				bad = "a tenth byte is accepted although it may carry more than one bit (the value overflows 64 bits)"
			}
		}
	}
	c.Check(bad == "", key, P.pos(def[0].Pos()), "accepted only with index <= 9, and at index 9 only a byte <= 1", "the decoder accepts more than the encoding allows: "+bad)
}

// ---------- TS-NODUR (C19)

func ruleTSNoDur(c *Ctx) {
	c.Rule("TS-NODUR", "a day count is never routed through time.Duration, whose ±292-year range is far smaller than the int32 day range the date type covers", 2)
	P := c.P
	bt := getBT(P)
	ct := bt.byType["time.DateCodec"]
	if !c.Anchor(ct != nil, "time.DateCodec") {
		return
	}
	isDur := func(t types.Type) bool { return typeKey(t) == "time.Duration" }
	for _, m := range []string{"Read", "Write"} {
		fn := ct.M[m]
		bad := ""
		for _, b := range fn.Blocks {
			for _, in := range b.Instrs {
				if v, ok := in.(ssa.Value); ok && isDur(v.Type()) {
					bad = P.pos(in.Pos())
				}
				for _, op := range in.Operands(nil) {
					if *op != nil && isDur((*op).Type()) {
						bad = P.pos(in.Pos())
					}
				}
			}
		}
		c.Check(bad == "", ct.Name+"."+m+"/no-duration", P.pos(fn.Pos()), "no time.Duration value is involved", "a time.Duration is computed at "+bad+": dates more than 292 years from 1970 overflow or saturate and decode to a different day")
	}
}

// exprMentions: some load in the expression tree of v has an access path
// containing sub (looks through conversions, arithmetic and unsafe.Add).
func exprMentions(v ssa.Value, sub string, d int) bool {
	if d > 10 || v == nil {
		return false
	}
	if strings.Contains(accessPath(v), sub) {
		return true
	}
	switch x := v.(type) {
	case *ssa.Convert:
		return exprMentions(x.X, sub, d+1)
	case *ssa.ChangeType:
		return exprMentions(x.X, sub, d+1)
	case *ssa.BinOp:
		return exprMentions(x.X, sub, d+1) || exprMentions(x.Y, sub, d+1)
	case *ssa.Call:
		if _, ok := x.Call.Value.(*ssa.Builtin); ok {
			for _, a := range x.Call.Args {
				if exprMentions(a, sub, d+1) {
					return true
				}
			}
		}
	}
	return false
}

// ---------- REC-LIST

// ruleRecList: the record codec's field list is what the other record rules
// reason about (one entry per schema field, in schema order). That holds only
// if nothing but the builder's per-field append ever writes it.
func ruleRecList(c *Ctx) {
	c.Rule("REC-LIST", "the record codec's field list is built by appending exactly one entry per schema field, in the builder's loop over the schema's fields, and is never rewritten, re-ordered or merged afterwards", 2)
	if rf := recordByFold(c.P); rf.ok {
		P := c.P
		pos := P.pos(rf.builder.Pos())
		msg := "the record builder folded for schema (a, gone, b, n1, n2, c) and struct {B, A, X, N1, N2, C chan}: " + rf.detail
		c.Check(rf.problems["list"] == "", fnKey(rf.builder)+"/one-entry-per-schema-field-in-order", pos, msg, rf.problems["list"])
		c.Check(rf.problems["skip"] == "" && rf.problems["read"] == "", "avro.recordCodec/every-field-in-order", pos, "Read and Skip folded on that codec visit each entry once, in order", rf.problems["skip"]+rf.problems["read"])
		return
	}
	P := c.P
	rfT, _, _ := recordFieldRoles(P)
	if !c.Anchor(rfT != nil, "record field entry type (one Codec field, one uintptr offset)") {
		return
	}
	isEntrySlice := func(t types.Type) bool {
		sl, ok := t.Underlying().(*types.Slice)
		if !ok {
			return false
		}
		n, ok := types.Unalias(sl.Elem()).(*types.Named)
		return ok && n.Obj() == rfT.Obj()
	}
	nAppend := 0
	for _, fn := range P.ModuleFuncs() {
		n := 0
		for _, b := range fn.Blocks {
			for _, in := range b.Instrs {
				st, ok := in.(*ssa.Store)
				if !ok {
					continue
				}
				// (a) a store of a whole list into a struct field
				if fa, isFA := st.Addr.(*ssa.FieldAddr); isFA && isEntrySlice(st.Val.Type()) {
					n++
					key := fmt.Sprintf("%s/list-store#%d", fnKey(fn), n)
					pos := P.pos(st.Pos())
					if emptySlice(st.Val) || isNilConst(st.Val) {
						c.OKTrivial(key, pos, "the list starts empty")
						continue
					}
					app, isApp := st.Val.(*ssa.Call)
					okApp := isApp && isBuiltinCall(app, "append") && len(app.Call.Args) == 2
					if okApp {
						ld, isLd := app.Call.Args[0].(*ssa.UnOp)
						okApp = isLd && ld.Op == token.MUL && accessPath(ld.X) == accessPath(fa)
					}
					one := false
					if okApp {
						// the variadic part is a one-element array literal
						if sl, isSl := app.Call.Args[1].(*ssa.Slice); isSl {
							if a, isA := sl.X.(*ssa.Alloc); isA {
								if at, isArr := a.Type().Underlying().(*types.Pointer).Elem().Underlying().(*types.Array); isArr && at.Len() == 1 {
									one = true
								}
							}
						}
					}
					l := innermostLoop(fn, b)
					switch {
					case !okApp:
						c.Unk(key, pos, "the record codec's field list is replaced by something other than an append to itself ("+strings.ReplaceAll(st.Val.String(), "github.com/philpearl/", "")+"): the entries may no longer correspond one-to-one, in order, to the schema's fields, which every other record rule assumes")
					case !one:
						c.Bad(key, pos, "more than one entry (or a whole slice) is appended to the record codec's field list at once")
					case l == nil || !oncePerIteration(fn, l, st):
						c.Bad(key, pos, "the entry is not appended exactly once per iteration of the loop over the schema's fields")
					default:
						nAppend++
						c.OK(key, pos, "fields = append(fields, entry): one entry per iteration of the schema-field loop")
					}
					continue
				}
				// (b) a store into an element of a list
				addr := st.Addr
				for {
					if fa, ok := addr.(*ssa.FieldAddr); ok {
						addr = fa.X
						continue
					}
					break
				}
				if ia, ok := addr.(*ssa.IndexAddr); ok && isEntrySlice(ia.X.Type()) {
					n++
					c.Unk(fmt.Sprintf("%s/entry-store#%d", fnKey(fn), n), P.pos(st.Pos()), "an entry of a record codec's field list is modified in place: the entries may no longer be what the builder computed for each schema field")
				}
			}
		}
	}
	c.Check(nAppend == 1, "record-codec/list-built-once", "-", "exactly one place appends to the field list", fmt.Sprintf("%d places append to the record codec's field list", nAppend))
}

// arrBoundInPlace decides ARR-BOUND's growth clauses for a helper that grows
// the header in place: it is called once per block, before the item loop,
// with the header the items are stored through and the loop's trip count;
// it returns without touching the header only where Len+n <= Cap, and
// otherwise stores a header whose array and Cap are both sized Len+n.
func arrBoundInPlace(c *Ctx, P *Program, fn *ssa.Function, key string, rd *ssa.Call, cl *Counted, l *Loop, n ssa.Value, call *ssa.Call, h *ssa.Function, hp, np *ssa.Parameter) {
	var hdrArg, nArg ssa.Value
	for i, p := range h.Params {
		if p == hp {
			hdrArg = call.Call.Args[i]
		}
		if p == np {
			nArg = stripConv(call.Call.Args[i])
		}
	}
	hdr := accessPath(hdrArg)
	stored := hdr != "" && exprMentions(rd.Call.Args[1], hdr+"->Data", 0)
	okArg := nArg == n && call.Block().Dominates(cl.Header) && !l.Blocks[call.Block()]
	c.Check(okArg && stored, key+"/grow-by-trip-count", P.pos(call.Pos()), "the slice is grown (in place) by exactly the item loop's trip count, once per block, through the header the items are stored through", "the slice is grown by a different amount than the number of items the loop then stores (or into a different header): items are written past the capacity of the backing array")
	hk := fnKey(h)
	// needed = sh.Len + n
	isNeeded := func(v ssa.Value) bool {
		bo, ok := stripConv(v).(*ssa.BinOp)
		if !ok || bo.Op != token.ADD {
			return false
		}
		isLen := func(x ssa.Value) bool {
			ld, ok := x.(*ssa.UnOp)
			if !ok || ld.Op != token.MUL {
				return false
			}
			fa, ok := ld.X.(*ssa.FieldAddr)
			return ok && fa.X == ssa.Value(hp) && fieldName(fa.X.Type(), fa.Field) == "Len"
		}
		return isLen(bo.X) && bo.Y == ssa.Value(np) || isLen(bo.Y) && bo.X == ssa.Value(np)
	}
	isCap := func(v ssa.Value) bool {
		ld, ok := v.(*ssa.UnOp)
		if !ok || ld.Op != token.MUL {
			return false
		}
		fa, ok := ld.X.(*ssa.FieldAddr)
		return ok && fa.X == ssa.Value(hp) && fieldName(fa.X.Type(), fa.Field) == "Cap"
	}
	// the store of the grown header
	var grownStore *ssa.Store
	for _, b := range h.Blocks {
		for _, in := range b.Instrs {
			if st, ok := in.(*ssa.Store); ok && st.Addr == ssa.Value(hp) {
				grownStore = st
			}
		}
	}
	okKeep, okNew := grownStore != nil, false
	for _, r := range returnsOf(h) {
		if grownStore != nil && dominatesInstr(grownStore, r) {
			continue
		}
		// returning without a new header: only where needed <= Cap
		fact := false
		for _, cmp := range cmpFactsAt(r.Block()) {
			if cmp.Op == token.LEQ && isNeeded(cmp.X) && isCap(cmp.Y) || cmp.Op == token.GEQ && isCap(cmp.X) && isNeeded(cmp.Y) {
				fact = true
			}
		}
		if !fact {
			okKeep = false
		}
	}
	if grownStore != nil {
		if ld, ok := grownStore.Val.(*ssa.UnOp); ok && ld.Op == token.MUL {
			if lit, ok := ld.X.(*ssa.Alloc); ok {
				lf := literalFields(lit)
				capOK := lf["Cap"] != nil && isNeeded(lf["Cap"])
				arrOK := false
				if na, ok := lf["Data"].(*ssa.Call); ok && na.Call.StaticCallee() != nil && na.Call.StaticCallee().Name() == "unsafe_NewArray" && isNeeded(na.Call.Args[1]) {
					arrOK = true
				}
				okNew = capOK && arrOK
			}
		}
	}
	c.Check(okKeep && okNew, hk+"/capacity", P.pos(h.Pos()), "leaves the header alone only where Len+n <= Cap, otherwise installs a new array of exactly Len+n elements with Cap = Len+n", "the growth helper can leave (or install) a slice whose capacity is below Len+n")
}

// arrElementStores: ARR-BOUND's who-may-write clause for the element storage.
func arrElementStores(c *Ctx, P *Program, fn *ssa.Function, key string, rd *ssa.Call) {
	// who may touch the element storage: pointers derived from the header's Data go nowhere but into the
	// item codec's Read as its destination
	{
		seenV := map[ssa.Value]bool{}
		var work []ssa.Value
		for _, b := range fn.Blocks {
			for _, in := range b.Instrs {
				if ld, ok := in.(*ssa.UnOp); ok && ld.Op == token.MUL {
					if fa, ok := ld.X.(*ssa.FieldAddr); ok && isUnsafePointer(ld.Type()) && typeKey(fa.X.Type()) == "*avro.sliceHeader" {
						work = append(work, ld)
					}
				}
			}
		}
		nUse, bad := 0, ""
		for len(work) > 0 {
			v := work[len(work)-1]
			work = work[:len(work)-1]
			if seenV[v] {
				continue
			}
			seenV[v] = true
			for _, r := range referrersOf(v) {
				switch x := r.(type) {
				case *ssa.DebugRef:
				case *ssa.Convert:
					if isUnsafePointer(x.Type()) || isBasicKind(x.Type(), types.Uintptr) {
						work = append(work, x)
					} else {
						bad = "the element storage is reinterpreted as " + x.Type().String() + " at " + P.pos(x.Pos())
					}
				case *ssa.BinOp:
					work = append(work, x)
				case *ssa.Phi:
					work = append(work, x)
				case *ssa.Call:
					switch {
					case isBuiltinCall(x, "Add"):
						work = append(work, x)
					case x.Call.IsInvoke() && x.Call.Method.Name() == "Read" && isCodecIface(P, x.Call.Value.Type()) && len(x.Call.Args) == 2 && x.Call.Args[1] == v:
						nUse++
					default:
						bad = "a pointer into the element storage is handed to " + strings.ReplaceAll(x.Call.Value.String(), "github.com/philpearl/", "") + " at " + P.pos(x.Pos())
					}
				case *ssa.Store:
					if x.Val == v {
						bad = "a pointer into the element storage is stored at " + P.pos(x.Pos())
					}
				default:
					bad = fmt.Sprintf("a pointer into the element storage is used by %T at %s", r, P.pos(r.Pos()))
				}
			}
		}
		c.Check(bad == "" && nUse > 0, key+"/element-stores", P.pos(rd.Pos()), "pointers into the slice's element storage are used only as the destination of the item codec's Read (one element, the element type's stride)", "elements are written other than one at a time by the item codec: "+bad+": the bytes written need not match the element type's size")
	}
}

// ruleFLTotal: FL-TOTAL (C17, C01, C03).
func ruleFLTotal(c *Ctx) {
	P := c.P
	bt := getBT(P)
	// every bit pattern decodes: a float codec's Read fails only by passing on an error of the read it
	// performs, never by judging the value (NaN payloads, infinities, denormals are all legal)
	c.Rule("FL-TOTAL", "a float codec's Read rejects no value: its only error returns pass on the error of the underlying read", 3)
	for _, ct := range bt.Codecs {
		if !strings.HasPrefix(ct.Name, "avro.floatCodec[") && ct.Name != "avro.Float32DoubleCodec" {
			continue
		}
		fn := ct.M["Read"]
		bad := ""
		for _, r := range returnsOf(fn) {
			ev := errOperand(r)
			if ev == nil || isNilConst(ev) {
				continue
			}
			if isFreshError(ev) {
				bad = "Read constructs an error of its own at " + P.pos(r.Pos()) + ": some bit patterns of the value are rejected"
			}
		}
		c.Check(bad == "", ct.Name+".Read/total", P.pos(fn.Pos()), "no value-dependent failure", bad)
	}
}
