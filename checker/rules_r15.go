package main

// Rules added with seed round 15.

import (
	"fmt"
	"go/token"
	"go/types"
	"strings"

	"golang.org/x/tools/go/ssa"
)

// ---------- LK-PAIR

// ruleLKPair: a lock taken is given back on every way out of the function that took it. For each
// Lock/RLock on a mutex in the module the matching Unlock/RUnlock on the same mutex is either deferred, or
// passed on every path from the lock to a return. A lock left held blocks the next writer, and behind a
// waiting writer every reader: the library stops answering although no single input is at fault.
func ruleLKPair(c *Ctx) {
	c.Rule("LK-PAIR", "every Lock/RLock on a mutex is released, by a deferred or explicit matching unlock, on every path to a return of the function that took it", 4)
	P := c.P
	unlockOf := map[string]string{"Lock": "Unlock", "RLock": "RUnlock"}
	n := 0
	for _, fn := range P.ModuleFuncs() {
		for _, b := range fn.Blocks {
			for idx, in := range b.Instrs {
				call, ok := in.(*ssa.Call)
				if !ok {
					continue
				}
				g := call.Call.StaticCallee()
				if g == nil || g.Signature.Recv() == nil || len(call.Call.Args) == 0 {
					continue
				}
				want, isLock := unlockOf[g.Name()]
				if !isLock || !isSyncMutex(g.Signature.Recv().Type()) {
					continue
				}
				n++
				mu := accessPath(call.Call.Args[0])
				key := fmt.Sprintf("%s/%s#%d", fnKey(fn), g.Name(), n)
				isRelease := func(x ssa.Instruction) bool {
					ci, ok := x.(ssa.CallInstruction)
					if !ok {
						return false
					}
					if _, isGo := x.(*ssa.Go); isGo {
						return false
					}
					h := ci.Common().StaticCallee()
					return h != nil && h.Name() == want && len(ci.Common().Args) > 0 && mu != "" && accessPath(ci.Common().Args[0]) == mu
				}
				var leak *ssa.Return
				visited := map[*ssa.BasicBlock]bool{}
				var walk func(bb *ssa.BasicBlock, from int)
				walk = func(bb *ssa.BasicBlock, from int) {
					if leak != nil {
						return
					}
					for _, x := range bb.Instrs[from:] {
						if isRelease(x) {
							return // an explicit unlock, or a defer of it (runs at every exit from here on)
						}
						if r, isR := x.(*ssa.Return); isR {
							leak = r
							return
						}
					}
					for _, sc := range bb.Succs {
						if !visited[sc] {
							visited[sc] = true
							walk(sc, 0)
						}
					}
				}
				walk(b, idx+1)
				if leak != nil {
					c.Bad(key, P.pos(call.Pos()), fmt.Sprintf("%s of %s is still held at the return at %s: the next %s waits for ever, and behind a waiting writer every reader", g.Name(), mu, P.pos(leak.Pos()), map[string]string{"Lock": "locker", "RLock": "writer"}[g.Name()]))
				} else {
					c.OK(key, P.pos(call.Pos()), "released ("+want+", deferred or explicit) on every path to a return")
				}
			}
		}
	}
}

func isSyncMutex(t types.Type) bool {
	n, ok := types.Unalias(derefType(t)).(*types.Named)
	return ok && n.Obj().Pkg() != nil && n.Obj().Pkg().Path() == "sync" && (n.Obj().Name() == "Mutex" || n.Obj().Name() == "RWMutex")
}

// ---------- STR-TOTAL

// ruleStrTotal: every byte sequence is a legal string or bytes body. The string and bytes decoders make an
// error of their own only for a negative length; anything else they return comes from the buffer. A check of
// the content (valid UTF-8, printable, no NUL) refuses data the writer writes without complaint.
func ruleStrTotal(c *Ctx) {
	c.Rule("STR-TOTAL", "the string and bytes decoders refuse of their own accord only a negative length: every byte sequence is a legal body", 2)
	P := c.P
	bt := getBT(P)
	for _, name := range []string{"avro.StringCodec", "avro.BytesCodec"} {
		ct := bt.byType[name]
		if ct == nil || ct.M["Read"] == nil {
			continue
		}
		fn := ct.M["Read"]
		key := ct.Name + ".Read/total"
		var bad []string
		for _, r := range returnsOf(fn) {
			ev := errOperand(r)
			if ev == nil || isNilConst(ev) {
				continue
			}
			srcs := []ssa.Value{ev}
			var blocks []*ssa.BasicBlock
			if phi, ok := ev.(*ssa.Phi); ok {
				srcs = nil
				for i, ed := range phi.Edges {
					srcs = append(srcs, ed)
					blocks = append(blocks, phi.Block().Preds[i])
				}
			}
			for i, sv := range srcs {
				if isNilConst(sv) || !ownError(sv) {
					continue
				}
				blk := r.Block()
				if blocks != nil {
					blk = blocks[i]
				} else if in, ok := stripChange(sv).(ssa.Instruction); ok && in.Block() != nil {
					blk = in.Block()
				}
				okSign := false
				for _, a := range guardAtoms(blk) {
					if a.dead() {
						continue
					}
					cmp, isCmp := asCmp(a.cond, a.truth)
					if !isCmp {
						bad = append(bad, "Read makes an error of its own at "+P.pos(r.Pos())+" under a condition that is not a comparison of the length")
						continue
					}
					kx, isKx := constInt(stripConv(cmp.X))
					ky, isKy := constInt(stripConv(cmp.Y))
					if isKy && ky == 0 && cmp.Op == token.LSS || isKx && kx == 0 && cmp.Op == token.GTR {
						okSign = true
					}
				}
				if !okSign {
					bad = append(bad, "Read makes an error of its own at "+P.pos(r.Pos())+" that is not the refusal of a negative length: some byte sequences are rejected although the writer writes them")
				}
			}
		}
		c.Check(len(bad) == 0, key, P.pos(fn.Pos()), "the only error of its own is for a negative length", strings.Join(dedup(bad), "; "))
	}
}

// ---------- SG-TYPEONLY

// ruleSGTypeOnly: the schema generated for a value depends on its type alone. Nothing schema generation
// reaches looks at the value (reflect.ValueOf, reflect.Indirect, methods of reflect.Value): a nil pointer, a
// zero struct and a populated one of the same type get the same schema.
func ruleSGTypeOnly(c *Ctx) {
	c.Rule("SG-TYPEONLY", "schema generation never looks at the value it is given, only at its type (no reflect.ValueOf, reflect.Indirect or reflect.Value method)", 1)
	P := c.P
	entry := P.Func(P.Avro, "SchemaForType")
	if !c.Anchor(entry != nil, "SchemaForType") {
		return
	}
	bad := ""
	n := 0
	seen := map[*ssa.Function]bool{}
	var scan func(f *ssa.Function, d int)
	scan = func(f *ssa.Function, d int) {
		if f == nil || seen[f] || f.Blocks == nil || d > 6 {
			return
		}
		seen[f] = true
		n++
		for _, cs := range callsIn(f) {
			if cs.Static == nil {
				continue
			}
			q := qualName(cs.Static)
			if (q == "reflect.ValueOf" || q == "reflect.Indirect" || strings.HasPrefix(q, "(reflect.Value).") || strings.HasPrefix(q, "(*reflect.Value).")) && bad == "" {
				bad = fmt.Sprintf("%s calls %s at %s", fnKey(f), q, P.pos(cs.Instr.Pos()))
			}
			if P.isModuleFunc(cs.Static) {
				scan(cs.Static, d+1)
			}
		}
	}
	scan(entry, 0)
	c.Check(bad == "", fnKey(entry)+"/type-only", P.pos(entry.Pos()), fmt.Sprintf("%d functions reachable: the value is only ever asked for its reflect.Type", n), bad+": what is generated can depend on the value (a nil pointer, say), not on the type alone")
}

// ---------- REG-ENTRY

// ruleRegEntry: the registry is consulted in one place, the codec dispatcher. Every other function that
// needs a codec for a (schema, type) pair asks the dispatcher; calling a per-type builder directly (the
// record builder for the root of a file, say) builds the library's own codec for a type that may have a
// registered one.
func ruleRegEntry(c *Ctx) {
	c.Rule("REG-ENTRY", "per-type codec builders are called only by the dispatcher that consults the registry; everything else asks the dispatcher", 1)
	P := c.P
	schemaNT := P.NamedType(P.Avro, "Schema")
	if !c.Anchor(schemaNT != nil, "avro.Schema") {
		return
	}
	isBuilder := func(g *ssa.Function) bool {
		if g == nil || g.Pkg != P.Avro || g.Signature.Recv() != nil || g.Parent() != nil {
			return false
		}
		if !isCodecErrorSig(P, g.Signature) || len(g.Params) < 2 {
			return false
		}
		return types.Identical(g.Params[0].Type(), schemaNT) && isReflectType(g.Params[1].Type())
	}
	// the dispatcher: the builder that looks the registry up (calls a function value of a registry's element type,
	// directly or through a helper it alone calls)
	var elems []types.Type
	for _, re := range registryElemTypes(P) {
		elems = append(elems, re.elem)
	}
	var dispatcher *ssa.Function
	for _, fn := range P.ModuleFuncs() {
		if !isBuilder(fn) {
			continue
		}
		for _, cs := range callsIn(fn) {
			if cs.Static == nil && cs.Iface == nil && cs.Value() != nil {
				for _, et := range elems {
					if types.Identical(cs.Common.Value.Type(), et) {
						dispatcher = fn
					}
				}
			}
		}
	}
	if !c.Anchor(dispatcher != nil, "the codec dispatcher (the builder that calls a registered builder)") {
		return
	}
	// helpers the dispatcher alone calls are part of it
	partOf := func(f *ssa.Function) bool {
		return f == dispatcher || reachedOnlyFrom(P, f, dispatcher, 0)
	}
	n := 0
	for _, fn := range P.ModuleFuncs() {
		for _, cs := range callsIn(fn) {
			g := cs.Static
			if g == nil || !isBuilder(g) || g == dispatcher {
				continue
			}
			n++
			key := fmt.Sprintf("%s/calls[%s]#%d", fnKey(fn), g.Name(), n)
			c.Check(partOf(fn), key, P.pos(cs.Instr.Pos()), "called from the dispatcher", fmt.Sprintf("%s builds a codec with %s without going through %s: a codec registered for the type is bypassed in this position", fnKey(fn), g.Name(), dispatcher.Name()))
		}
	}
}

// ---------- ENC-BUF0

// ruleEncBuf0: whatever write buffer the encoder installs starts empty. The encoder counts what is buffered
// by the buffer's length, so a buffer made with a length (make([]byte, n) for make([]byte, 0, n)) puts n zero
// bytes in front of the next row and trips the size test at once.
func ruleEncBuf0(c *Ctx) {
	c.Rule("ENC-BUF0", "every write buffer installed in the encoder is made over a slice of length zero", 1)
	P := c.P
	encT := P.NamedType(P.Avro, "Encoder")
	if !c.Anchor(encT != nil, "avro.Encoder") {
		return
	}
	n := 0
	emptySlice := func(v ssa.Value) bool {
		switch x := stripChange(v).(type) {
		case *ssa.MakeSlice:
			k, isK := constInt(x.Len)
			return isK && k == 0
		case *ssa.Slice:
			if x.High != nil {
				k, isK := constInt(x.High)
				return isK && k == 0
			}
		case *ssa.Const:
			return x.Value == nil
		}
		return false
	}
	check := func(fn *ssa.Function, v ssa.Value, at token.Pos) {
		call, ok := stripChange(v).(*ssa.Call)
		if !ok {
			return
		}
		g := call.Call.StaticCallee()
		if g == nil || g.Name() != "NewWriteBuf" || len(call.Call.Args) != 1 {
			return
		}
		n++
		key := fmt.Sprintf("%s/encoder-buffer#%d", fnKey(fn), n)
		c.Check(emptySlice(call.Call.Args[0]), key, P.pos(at), "NewWriteBuf over a slice of length 0", "the encoder's write buffer is made over a slice that already has a length: those bytes count as buffered rows and are written out in front of the next one")
	}
	for _, fn := range P.ModuleFuncs() {
		for _, b := range fn.Blocks {
			for _, in := range b.Instrs {
				st, ok := in.(*ssa.Store)
				if !ok {
					continue
				}
				fa, ok := st.Addr.(*ssa.FieldAddr)
				if !ok || !strings.HasPrefix(typeKey(derefType(fa.X.Type())), "avro.Encoder") {
					continue
				}
				if typeKey(derefType(st.Val.Type())) == "avro.WriteBuf" {
					check(fn, st.Val, st.Pos())
				}
			}
		}
	}
}

// ---------- UN-TOTAL

// ruleUNTotal: the union builder refuses a union only through the builder of one of its branches. It makes no
// error of its own: every union the schema parser accepts (two records, two fixed types, null anywhere) can be
// built when its branches can.
func ruleUNTotal(c *Ctx) {
	c.Rule("UN-TOTAL", "the union codec builder makes no error of its own: a union is refused only when the builder of one of its branches refuses", 1)
	P := c.P
	fn := P.Func(P.Avro, "buildUnionCodec")
	if !c.Anchor(fn != nil && fn.Blocks != nil, "buildUnionCodec") {
		return
	}
	var bad []string
	n := 0
	seen := map[*ssa.Function]bool{}
	var scan func(f *ssa.Function, d int)
	scan = func(f *ssa.Function, d int) {
		if f == nil || seen[f] || f.Blocks == nil || d > 2 {
			return
		}
		seen[f] = true
		n++
		for _, r := range returnsOf(f) {
			ev := errOperand(r)
			if ev == nil || isNilConst(ev) {
				continue
			}
			srcs := []ssa.Value{ev}
			if phi, ok := ev.(*ssa.Phi); ok {
				srcs = phi.Edges
			}
			for _, sv := range srcs {
				if !isNilConst(sv) && ownError(sv) {
					bad = append(bad, fmt.Sprintf("%s makes an error of its own at %s", fnKey(f), P.pos(r.Pos())))
				}
			}
		}
		// helpers only the union builder calls are part of it
		for _, cs := range callsIn(f) {
			if cs.Static != nil && P.isModuleFunc(cs.Static) && reachedOnlyFrom(P, cs.Static, fn, 0) {
				scan(cs.Static, d+1)
			}
		}
	}
	scan(fn, 0)
	c.Check(len(bad) == 0, fnKey(fn)+"/no-own-refusal", P.pos(fn.Pos()), fmt.Sprintf("%d function(s): every error returned is a branch builder's, wrapped", n), strings.Join(dedup(bad), "; ")+": a union whose branches can all be built is refused")
}
