#!/usr/bin/env python3
"""seed_keep.py <PROP> <worktree> <name> <needs...>  — evaluate (seed_eval --keep) and write meta.json"""
import json, os, subprocess, sys
prop, wt, name = sys.argv[1:4]
needs = ' '.join(sys.argv[4:])
p = subprocess.run(['python3', '/verif/tools/seed_eval.py', prop, wt, name, '--keep'], capture_output=True, text=True)
out = p.stdout
d = json.loads(out[out.index('{'):])
caught = []
for l in d['checks_fired'].get(prop, []):
    parts = l.split()
    if len(parts) > 1 and parts[1] not in caught:
        caught.append(parts[1])
meta = {
    "property": prop, "name": name, "breaks": prop,
    "needs_to_manifest": needs,
    "caught_by": ', '.join(caught) or '(not caught)',
    "verified": {k: d[k] for k in ('suite_passes_with_patch', 'demo_fails_with_patch', 'demo_passes_without_patch')},
    "what_was_run": [
        "scratch worktree of /repo HEAD: git apply patch.diff; go test -vet=off -count=1 ./... (suite, demo moved aside); go test -run TestSeeded (with and without the patch)",
        "git -C /repo apply patch.diff; ./check <every claimed property> quick -out <tmp>; git -C /repo checkout -- ."],
    "demo": "the *_test.go.txt file in this directory; copy it next to the patched source as a _test.go file (time/ for the time package)",
    "detected_by_own_property": d['detected_by_own_property'],
    "properties_whose_check_fails": sorted(d['checks_fired'].keys()),
    "origin": "round 2: produced independently by a sub-agent that saw only the property text and a scratch worktree",
}
json.dump(meta, open('/verif/seeded/%s/meta.json' % name, 'w'), indent=1)
print(name, 'own:', d['detected_by_own_property'], 'by:', meta['caught_by'], 'verified:', meta['verified'])
