package main

import (
	"fmt"
	"go/token"
	"go/types"

	"golang.org/x/tools/go/ssa"
)

// OD-META: the header's metadata is one Avro map, which may arrive in several blocks. Every entry of every
// block must end up in the map the header is returned with: the map the entries are stored into is made
// once — not once per block. Structural form: in the header reader (and the helpers it calls) no
// `make(map[string][]byte)` sits on a cycle of the control-flow graph, unless it is guarded by a test that
// the map is still nil; and the entries are stored into that map.

func onCycle(b *ssa.BasicBlock) bool {
	for _, s := range b.Succs {
		if reachableFrom(s, nil)[b] {
			return true
		}
	}
	return false
}

func isMetaMap(t types.Type) bool {
	m, ok := t.Underlying().(*types.Map)
	if !ok {
		return false
	}
	k, ok := m.Key().Underlying().(*types.Basic)
	if !ok || k.Kind() != types.String {
		return false
	}
	sl, ok := m.Elem().Underlying().(*types.Slice)
	if !ok {
		return false
	}
	e, ok := sl.Elem().Underlying().(*types.Basic)
	return ok && e.Kind() == types.Uint8
}

func ruleODMeta(c *Ctx, s *readFileShape) {
	c.Rule("OD-META", "the header's metadata entries of all map blocks land in one map: the map is not re-made per block", 2)
	P := c.P
	if !c.Anchor(s.headerFn != nil, "header reader (callee of ReadFile returning FileHeader)") {
		return
	}
	fns := []*ssa.Function{s.headerFn}
	seen := map[*ssa.Function]bool{s.headerFn: true}
	for i := 0; i < len(fns) && i < 12; i++ {
		for _, cs := range callsIn(fns[i]) {
			if g := cs.Static; g != nil && P.isModuleFunc(g) && g.Blocks != nil && !seen[g] {
				seen[g] = true
				fns = append(fns, g)
			}
		}
	}
	nMake, nStore := 0, 0
	for _, fn := range fns {
		for _, b := range fn.Blocks {
			for _, in := range b.Instrs {
				switch x := in.(type) {
				case *ssa.MakeMap:
					if !isMetaMap(x.Type()) {
						continue
					}
					nMake++
					key := fmt.Sprintf("%s/meta-map#%d", fnKey(fn), nMake)
					if !onCycle(b) {
						c.OK(key, P.pos(x.Pos()), "the metadata map is made outside every loop")
						continue
					}
					// inside a loop: fine when made only while there is none yet
					guarded := false
					for _, r := range referrersOf(x) {
						st, ok := r.(*ssa.Store)
						if !ok {
							continue
						}
						for _, cmp := range cmpFactsAt(b) {
							if cmp.Op != token.EQL {
								continue
							}
							var other, ld ssa.Value = cmp.Y, cmp.X
							if isNilConst(cmp.X) {
								other, ld = cmp.X, cmp.Y
							}
							if !isNilConst(other) {
								continue
							}
							if u, ok := ld.(*ssa.UnOp); ok && u.Op == token.MUL && accessPath(u.X) == accessPath(st.Addr) {
								guarded = true
							}
						}
					}
					c.Check(guarded, key, P.pos(x.Pos()), "made inside the loop only while the map is still nil", "the metadata map is made anew inside the loop that reads the map's blocks: the entries of every block but the last are thrown away (a header whose metadata comes in more than one block loses avro.schema or avro.codec)")
				case *ssa.MapUpdate:
					if !isMetaMap(x.Map.Type()) {
						continue
					}
					nStore++
					key := fmt.Sprintf("%s/meta-entry#%d", fnKey(fn), nStore)
					switch m := x.Map.(type) {
					case *ssa.UnOp:
						c.Check(m.Op == token.MUL, key, P.pos(x.Pos()), "the entry is stored into the map held at "+accessPath(m.X), "the entry is stored into something that is not the header's map")
					case *ssa.MakeMap, *ssa.Parameter:
						c.OK(key, P.pos(x.Pos()), "the entry is stored into the one map made for the header")
					default:
						c.Unk(key, P.pos(x.Pos()), "cannot tell which map this entry is stored into: "+x.Map.String())
					}
				}
			}
		}
	}
	c.Anchor(nMake > 0 && nStore > 0, "make and entry store of the header's metadata map")
}
