package main

// OM-VALID (C02, C01, C13, C20): the converse of OM-ZERO for validity
// wrappers. A codec whose destination is a wrapper with a validity flag (the
// null.* types: a payload plus `Valid bool`) must say Omit exactly when the
// flag is false — "an invalid null.* wrapper is written as the null branch and
// everything else as the non-null branch". A test of the whole value against
// its zero value is not that test: an invalid wrapper that still carries a
// payload (reused across decodes, or built with NewInt(7, false)) would be
// written as a value.

import (
	"fmt"
	"go/token"
	"go/types"
	"strings"

	"golang.org/x/tools/go/ssa"
)

// validityField: T (a struct, possibly through embedded structs) has a bool
// field called Valid.
func validityField(t types.Type, d int) bool {
	if d > 3 {
		return false
	}
	st, ok := t.Underlying().(*types.Struct)
	if !ok {
		return false
	}
	for i := 0; i < st.NumFields(); i++ {
		f := st.Field(i)
		if f.Name() == "Valid" && isBasicKind(f.Type(), types.Bool) {
			return true
		}
		if f.Embedded() && validityField(f.Type(), d+1) {
			return true
		}
	}
	return false
}

// validLoad: v is the wrapper's Valid flag, read through the pointer (or out
// of the value) the environment stands for.
func (e *omEnv) validLoad(v ssa.Value) bool {
	switch x := v.(type) {
	case *ssa.UnOp:
		if x.Op != token.MUL {
			return false
		}
		fa, ok := x.X.(*ssa.FieldAddr)
		return ok && fieldName(fa.X.Type(), fa.Field) == "Valid" && e.ptrAlias(fa.X, 0)
	case *ssa.Field:
		return fieldNameT(x.X.Type(), x.Field) == "Valid" && e.valueAt(x.X, 0)
	}
	return false
}

// validTest: cond being `want` is the same as Valid being `is`.
func (e *omEnv) validTest(cond ssa.Value, want bool, d int) (ok, is bool) {
	if d > 6 {
		return false, false
	}
	switch x := cond.(type) {
	case *ssa.UnOp:
		if x.Op == token.NOT {
			return e.validTest(x.X, !want, d+1)
		}
		if e.validLoad(x) {
			return true, want
		}
	case *ssa.Field:
		if e.validLoad(x) {
			return true, want
		}
	case *ssa.BinOp:
		if x.Op != token.EQL && x.Op != token.NEQ {
			return false, false
		}
		for _, pair := range [][2]ssa.Value{{x.X, x.Y}, {x.Y, x.X}} {
			k, isK := pair[1].(*ssa.Const)
			if !isK || k.Value == nil || !e.validLoad(pair[0]) {
				continue
			}
			kv := k.Value.ExactString() == "true"
			// (Valid == kv) is want  <=>  Valid is (kv == (op is EQL)) when want, the opposite otherwise
			eq := x.Op == token.EQL
			if !want {
				eq = !eq
			}
			if eq {
				return true, kv
			}
			return true, !kv
		}
	case *ssa.Call:
		// a helper, or another codec's Omit, that answers for the same pointer or value
		g := x.Call.StaticCallee()
		if g == nil || !e.P.isModuleFunc(g) || g.Blocks == nil || d > 3 {
			return false, false
		}
		sub := &omEnv{P: e.P, ptrs: map[ssa.Value]bool{}, vals: map[ssa.Value]bool{}}
		n := 0
		for i, a := range x.Call.Args {
			if i >= len(g.Params) {
				break
			}
			switch {
			case e.samePtr(a, 0):
				sub.ptrs[g.Params[i]] = true
				n++
			case e.valueAt(a, 0) && !e.validLoad(a):
				sub.vals[g.Params[i]] = true
				n++
			}
		}
		if n == 0 {
			return false, false
		}
		// the helper must be "true exactly when Valid is r" for one r
		r, probs := sub.validAnswer(g, d+1)
		if len(probs) > 0 {
			return false, false
		}
		if want {
			return true, r
		}
		return true, !r
	}
	return false, false
}

// validAnswer: fn's boolean result is true exactly when Valid is r; problems otherwise.
func (e *omEnv) validAnswer(fn *ssa.Function, d int) (r bool, problems []string) {
	paths, ok := enumeratePaths(fn)
	if !ok {
		return false, []string{"path budget exceeded"}
	}
	have := false
	note := func(trueWhenValidIs bool, where string) {
		if have && r != trueWhenValidIs {
			problems = append(problems, "the answer at "+where+" has the opposite sense of an earlier one")
		}
		r, have = trueWhenValidIs, true
	}
	for _, pa := range paths {
		if pa.Ret == nil {
			continue
		}
		res := resolvedResults(pa.Ret)
		if len(res) == 0 {
			continue
		}
		v := res[0]
		for i := 0; i < 4; i++ {
			if phi, isPhi := v.(*ssa.Phi); isPhi {
				v = phiValueOnPath(phi, pa.Blocks)
			}
		}
		where := e.P.pos(pa.Ret.Pos())
		if k, isK := v.(*ssa.Const); isK && k.Value != nil {
			ans := k.Value.ExactString() == "true"
			// the path must have established Valid
			known, validIs := false, false
			for i := 0; i+1 < len(pa.Blocks); i++ {
				b := pa.Blocks[i]
				iff, isIf := b.Instrs[len(b.Instrs)-1].(*ssa.If)
				if !isIf {
					continue
				}
				if ok, is := e.validTest(iff.Cond, b.Succs[0] == pa.Blocks[i+1], d); ok {
					known, validIs = true, is
				}
			}
			if !known {
				problems = append(problems, fmt.Sprintf("the constant %v returned at %s is not decided by the validity flag", ans, where))
				continue
			}
			// ans is returned when Valid is validIs: "true exactly when Valid is X" with X = validIs if ans, !validIs otherwise
			if ans {
				note(validIs, where)
			} else {
				note(!validIs, where)
			}
			continue
		}
		ok, is := e.validTest(v, true, d)
		if !ok {
			problems = append(problems, fmt.Sprintf("the value returned at %s (%s) is not a test of the validity flag alone", where, strings.TrimSpace(v.String())))
			continue
		}
		note(is, where)
	}
	if !have && len(problems) == 0 {
		problems = append(problems, "no return found")
	}
	return r, problems
}

func ruleOMValid(c *Ctx) {
	c.Rule("OM-VALID", "a codec for a wrapper with a validity flag omits exactly the invalid wrappers: Omit is true if and only if Valid is false, whatever payload the wrapper carries", 5)
	P := c.P
	bt := getBT(P)
	ce := newContractEnv(P)
	for _, ct := range bt.Codecs {
		fn := ct.M["Omit"]
		if fn == nil || len(fn.Params) == 0 {
			continue
		}
		// what the codec's methods take their pointer to be
		var wrapper types.Type
		for _, m := range []string{"Read", "Write", "Omit"} {
			g := ct.M[m]
			if g == nil || len(g.Params) == 0 {
				continue
			}
			k := ce.ParamContract(g, len(g.Params)-1, nil)
			if k.Kind == CPtr && k.T != nil && validityField(k.T, 0) {
				wrapper = k.T
			}
		}
		if wrapper == nil {
			continue
		}
		key := ct.Name + ".Omit/iff-invalid"
		pos := P.pos(fn.Pos())
		if !ct.Declared["Omit"] {
			c.Bad(key, pos, "the codec's destination is the validity wrapper "+typeKey(wrapper)+" but its Omit is promoted from an embedded codec, which knows nothing of the flag")
			continue
		}
		e := &omEnv{P: P, ptrs: map[ssa.Value]bool{fn.Params[len(fn.Params)-1]: true}, vals: map[ssa.Value]bool{}}
		r, probs := e.validAnswer(fn, 0)
		switch {
		case len(probs) > 0:
			c.Bad(key, pos, "Omit of the codec for "+typeKey(wrapper)+" is not `!Valid`: "+strings.Join(probs, "; ")+": an invalid wrapper that carries a payload is written as a value, or a valid zero as null")
		case r:
			c.Bad(key, pos, "Omit of the codec for "+typeKey(wrapper)+" is true exactly when Valid is true: the sense is inverted")
		default:
			c.OK(key, pos, "Omit is true exactly when the Valid flag of "+typeKey(wrapper)+" is false")
		}
	}
}
