#!/usr/bin/env python3
"""ctl_refresh.py [-j N] [-o out.json] [patch...]

Behaviour-preserving controls, evaluated without touching /repo's working tree: each patch is
applied in a scratch worktree of /repo HEAD and every property's quick check is run against it
(VERIF_REPO), evidence redirected. Prints, per control, the rules that alarm (all false alarms by
construction) and writes a JSON summary {patch: {prop: [rule construct...]}}.
With no patch arguments: every controls/*.patch."""
import json, os, shutil, subprocess, sys, tempfile, glob
from concurrent.futures import ThreadPoolExecutor

args = sys.argv[1:]
jobs, out = 8, None
pats = []
i = 0
while i < len(args):
    if args[i] == '-j':
        jobs = int(args[i + 1]); i += 2
    elif args[i] == '-o':
        out = args[i + 1]; i += 2
    else:
        pats.append(args[i]); i += 1
if not pats:
    pats = sorted(glob.glob('/verif/controls/*.patch'))
props = ['C%02d' % k for k in range(1, 21)]


def sh(cmd, cwd=None, env=None):
    p = subprocess.run(cmd, shell=True, cwd=cwd, capture_output=True, text=True, env=env)
    return p.returncode, p.stdout + p.stderr


def one(pf):
    pf = os.path.realpath(pf)
    wt = tempfile.mkdtemp(prefix='ctlwt-', dir='/tmp'); os.rmdir(wt)
    od = tempfile.mkdtemp(prefix='ctlout-', dir='/tmp')
    res = {}
    try:
        rc, o = sh('git -C /repo worktree add -q --detach %s HEAD' % wt)
        if rc != 0:
            return pf, {'ERROR': [o[:100]]}
        rc, o = sh('git -C %s apply %s' % (wt, pf))
        if rc != 0:
            return pf, {'DOES-NOT-APPLY': [o.strip()[:100]]}
        env = dict(os.environ, VERIF_REPO=wt)
        # one process for all twenty properties: the program is loaded once
        rc, o = sh('./check all quick -out %s' % od, cwd='/verif', env=env)
        cur = []
        seenp = set()
        for l in o.splitlines():
            if l.startswith('VIOLATED') or l.startswith('UNDECIDED') or 'could not load' in l or 'panicked' in l or 'build failed' in l:
                cur.append(l)
            elif l.startswith('property C') and ' tier ' in l:
                p = l.split()[1]
                seenp.add(p)
                if cur:
                    res[p] = [' '.join(x.split()[:3]) for x in cur[:10]]
                cur = []
        if cur or len(seenp) != len(props):
            res['?'] = [' '.join(x.split()[:3]) for x in cur[:10]] or ['only %d properties reported (rc=%d): %s' % (len(seenp), rc, o[-200:])]
        return pf, res
    finally:
        sh('git -C /repo worktree remove --force %s' % wt)
        shutil.rmtree(od, ignore_errors=True)


summary = {}
with ThreadPoolExecutor(max_workers=jobs) as ex:
    for pf, res in ex.map(one, pats):
        name = os.path.basename(pf)
        summary[name] = res
        if res:
            rules = sorted({l.split()[1] for ls in res.values() for l in ls if len(l.split()) > 1})
            print('%-22s ALARM %s  [%s]' % (name, ','.join(sorted(res)), ' '.join(rules)), flush=True)
        else:
            print('%-22s silent' % name, flush=True)
sh('git -C /repo worktree prune')
n = sum(1 for r in summary.values() if r)
print('%d of %d controls alarm' % (n, len(summary)))
if out:
    json.dump(summary, open(out, 'w'), indent=1, sort_keys=True)
