package main

// OD-BLOCK decided by folding (E-CP) WriteBlock on a file writer whose sync
// marker is sixteen named bytes, with the writer and the compressor unknown:
// the writes the success outcome makes on w are, in order, the varint of the
// row count, the varint of the length of what the compressor returned for the
// block, those very bytes, and the sixteen sync bytes — however WriteBlock is
// split into helpers.

import (
	"fmt"
	"go/types"
	"os"
	"strings"

	"golang.org/x/tools/go/ssa"
)

type blockFold struct {
	ok       bool
	why      string
	problems []string
	detail   string
	nOut     int
}

var blockFoldCache = map[*Program]*blockFold{}

func blockByFold(P *Program) *blockFold {
	if r, ok := blockFoldCache[P]; ok {
		return r
	}
	r := &blockFold{}
	blockFoldCache[P] = r
	fwN := P.NamedType(P.Avro, "FileWriter")
	if fwN == nil {
		r.why = "FileWriter not found"
		return r
	}
	fn := P.Method(fwN, "WriteBlock")
	if fn == nil || len(fn.Params) != 4 {
		r.why = "WriteBlock(w, rowCount, block) not found"
		return r
	}
	st, isS := fwN.Underlying().(*types.Struct)
	if !isS {
		r.why = "FileWriter is not a struct"
		return r
	}
	fields := map[string]cpVal{}
	syncField := ""
	for i := 0; i < st.NumFields(); i++ {
		f := st.Field(i)
		if at, isA := f.Type().Underlying().(*types.Array); isA && at.Len() == 16 && isBasicKind(at.Elem(), types.Uint8) {
			arr := cpArr{T: f.Type(), Elems: make([]*cpCell, 16)}
			for k := range arr.Elems {
				arr.Elems[k] = &cpCell{V: cpUnk{ID: fmt.Sprintf("sync%d", k)}, T: at.Elem()}
			}
			fields[f.Name()] = arr
			syncField = f.Name()
			continue
		}
		if at, isA := f.Type().Underlying().(*types.Array); isA && isBasicKind(at.Elem(), types.Uint8) {
			arr := cpArr{T: f.Type(), Elems: make([]*cpCell, at.Len())}
			for k := range arr.Elems {
				arr.Elems[k] = &cpCell{V: cpInt{0}, T: at.Elem()}
			}
			fields[f.Name()] = arr
			continue
		}
		if _, isI := f.Type().Underlying().(*types.Interface); isI {
			fields[f.Name()] = cpUnk{ID: "fw." + f.Name()}
		}
	}
	if syncField == "" {
		r.why = "the file writer has no 16-byte sync field"
		return r
	}
	fw := cpPtrTo(cpStructUnknownExceptVals(types.Type(fwN), fields), types.Type(fwN))
	args := []cpVal{fw, cpUnk{ID: "arg:w"}, cpUnk{ID: "arg:rows"}, cpUnk{ID: "arg:block"}}
	cpMaxOutcomes = 128
	defer func() { cpMaxOutcomes = 96 }()
	outs, _, ok, why := cpFoldOpt(P, fn, args, nil)
	if !ok {
		r.why = "folding WriteBlock: " + why
		return r
	}
	r.nOut = len(outs)
	nSucc := 0
	bad := func(s string) { r.problems = append(r.problems, s) }
	for _, o := range outs {
		if o.Panics {
			bad("a path of WriteBlock ends in a run-time panic")
			continue
		}
		if len(o.Results) != 1 {
			r.why = "WriteBlock does not return one value"
			return r
		}
		if _, isNil := o.Results[0].(cpNil); !isNil {
			continue
		}
		nSucc++
		if os.Getenv("AVROCHECK_BLOCKFOLD") != "" {
			fmt.Printf("success outcome decided=%v\n", o.Decided)
			for _, cl := range o.Calls {
				fmt.Printf("   %s -> %v\n", cl.Callee, cl.Result)
			}
		}
		// the writes on w, in order; the compressor's result
		var writes []cpVal
		comp := ""
		for _, cl := range o.Calls {
			switch {
			case cl.Callee == "invoke:Write" && len(cl.Args) == 2:
				if u, isU := cl.Args[0].(cpUnk); isU && u.ID == "arg:w" {
					writes = append(writes, cl.Args[1])
					// success is reported only if this write's error was looked at and found nil
					if t, isT := cl.Result.(cpTuple); isT && len(t.Vs) == 2 {
						eu, _ := t.Vs[1].(cpUnk)
						if isNil, tested := o.Decided["cmp:"+eu.ID+"==nil"]; !tested || !isNil {
							bad(fmt.Sprintf("WriteBlock can report success although write #%d on w failed, or without having looked at its error: the caller drops the records of a block that was not written", len(writes)))
						}
					}
				} else {
					bad("something is written to a writer other than the one WriteBlock was given")
				}
			case cl.Callee == "invoke:compress" && len(cl.Args) == 2:
				if u, isU := cl.Args[1].(cpUnk); !isU || u.ID != "arg:block" {
					bad("what is compressed is not the block WriteBlock was given")
				}
				if t, isT := cl.Result.(cpTuple); isT && len(t.Vs) == 2 {
					if u, isU := t.Vs[0].(cpUnk); isU {
						comp = u.ID
					}
				}
			case strings.HasPrefix(cl.Callee, "invoke:") || strings.Contains(cl.Callee, "io.Writer") || strings.Contains(cl.Callee, "io.WriteString") || strings.Contains(cl.Callee, "bufio."):
				for _, a := range cl.Args {
					if u, isU := a.(cpUnk); isU && u.ID == "arg:w" {
						bad("the writer is handed to " + cl.Callee + ": what that writes is not visible")
					}
				}
			}
		}
		if comp == "" {
			bad("on a success path the block is not compressed by the writer's compressor")
			continue
		}
		desc := func(v cpVal) string {
			switch x := v.(type) {
			case cpUnk:
				return x.ID
			case cpSlice:
				var ids []string
				for _, c := range x.Elems {
					if u, isU := c.V.(cpUnk); isU {
						ids = append(ids, u.ID)
					} else {
						ids = append(ids, "?")
					}
				}
				return "[" + strings.Join(ids, " ") + "]"
			}
			return fmt.Sprintf("%T", v)
		}
		var got []string
		for _, w := range writes {
			got = append(got, desc(w))
		}
		var syncIDs []string
		for k := 0; k < 16; k++ {
			syncIDs = append(syncIDs, fmt.Sprintf("sync%d", k))
		}
		want := []string{"varint:arg:rows", "varint:len(" + comp + ")", comp, "[" + strings.Join(syncIDs, " ") + "]"}
		if strings.Join(got, " | ") != strings.Join(want, " | ") {
			bad(fmt.Sprintf("a successful WriteBlock writes %v; a block is varint(rowCount), varint(len(compressed)), compressed, sync: %v", got, want))
		}
	}
	if nSucc == 0 {
		r.why = "the fold found no success outcome"
		return r
	}
	r.ok = true
	r.problems = dedup(r.problems)
	r.detail = fmt.Sprintf("WriteBlock folded with the writer and the compressor unknown and the sync marker sixteen named bytes: %d outcomes, %d of them successful", len(outs), nSucc)
	return r
}

// cpStructUnknownExceptVals is cpStructUnknownExcept for a map keyed by field name.
func cpStructUnknownExceptVals(t types.Type, fields map[string]cpVal) cpStruct {
	return cpStructUnknownExcept(t, fields)
}

var _ = ssa.Value(nil)
