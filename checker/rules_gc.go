package main

// E-GC: GC-visibility rules (C11): GC-TYPED, GC-UINTPTR, GC-SHADOW, GC-ITER,
// GC-LINKSIG, GC-TARGET.

import (
	"fmt"
	"go/ast"
	"go/token"
	"go/types"
	"os"
	"path/filepath"
	"regexp"
	"runtime"
	"sort"
	"strings"

	"golang.org/x/tools/go/packages"
	"golang.org/x/tools/go/ssa"
)

// rtypeDerived: v (an unsafe.Pointer used as a runtime type) derives from
// unpackEFace(<reflect.Type>).data, directly, through phis, or through a
// struct field all of whose stores in the module are so derived.
func rtypeDerived(P *Program, v ssa.Value, depth int) (bool, string) {
	if depth > 4 {
		return false, "too deep"
	}
	for _, s := range phiSources(v) {
		if rtypeSource(s) != nil {
			continue
		}
		ld, ok := s.(*ssa.UnOp)
		if ok && ld.Op == token.MUL {
			if fa, ok := ld.X.(*ssa.FieldAddr); ok {
				st := fa.X.Type().Underlying().(*types.Pointer).Elem()
				fname := fieldName(fa.X.Type(), fa.Field)
				n, good := 0, true
				why := ""
				for _, fn := range P.ModuleFuncs() {
					for _, b := range fn.Blocks {
						for _, in := range b.Instrs {
							stv, ok := in.(*ssa.Store)
							if !ok {
								continue
							}
							fa2, ok := stv.Addr.(*ssa.FieldAddr)
							if !ok || fieldName(fa2.X.Type(), fa2.Field) != fname || !types.Identical(fa2.X.Type().Underlying().(*types.Pointer).Elem(), st) {
								continue
							}
							n++
							if ok2, w := rtypeDerived(P, stv.Val, depth+1); !ok2 {
								good, why = false, w
							}
						}
					}
				}
				if n > 0 && good {
					continue
				}
				if n == 0 {
					why = "no store to field " + fname + " found"
				}
				return false, "field " + fname + ": " + why
			}
		}
		// a parameter of an unexported module function that is never used as a value: every call site must pass one
		if prm, isP := s.(*ssa.Parameter); isP {
			f := prm.Parent()
			idx := -1
			for i, q := range f.Params {
				if q == prm {
					idx = i
				}
			}
			exported := f.Object() != nil && f.Object().Exported()
			if idx >= 0 && !exported && P.isModuleFunc(f) {
				n, good, why := 0, true, ""
				for _, g := range P.ModuleFuncs() {
					for _, b := range g.Blocks {
						for _, in := range b.Instrs {
							for _, op := range in.Operands(nil) {
								if *op != ssa.Value(f) {
									continue
								}
								ci, isCall := in.(ssa.CallInstruction)
								if !isCall || ci.Common().Value != ssa.Value(f) || idx >= len(ci.Common().Args) {
									good, why = false, f.Name()+" is used as a value"
									continue
								}
								n++
								if ok2, w := rtypeDerived(P, ci.Common().Args[idx], depth+1); !ok2 {
									good, why = false, w
								}
							}
						}
					}
				}
				if n > 0 && good {
					continue
				}
				if n == 0 && why == "" {
					why = "no call site of " + f.Name() + " found"
				}
				return false, "parameter " + prm.Name() + ": " + why
			}
		}
		// a result of a module helper: every value it can return there must be derived
		if ex, isEx := s.(*ssa.Extract); isEx {
			if call, isCall := ex.Tuple.(*ssa.Call); isCall {
				if h := call.Call.StaticCallee(); h != nil && P.isModuleFunc(h) && h.Blocks != nil && depth < 4 {
					good, why, n := true, "", 0
					for _, r := range returnsOf(h) {
						rs := resolvedResults(r)
						if ex.Index >= len(rs) {
							continue
						}
						n++
						if ok2, w := rtypeDerived(P, rs[ex.Index], depth+1); !ok2 {
							good, why = false, w
						}
					}
					if n > 0 && good {
						continue
					}
					return false, "result of " + h.Name() + ": " + why
				}
			}
		}
		return false, "value " + s.String() + " does not come from unpackEFace(reflect.Type).data"
	}
	return true, ""
}

var rtypeArgOf = map[string]bool{"unsafe_New": true, "unsafe_NewArray": true, "typedmemclr": true, "typedslicecopy": true, "mapassign": true, "mapiterinit": true}

func ruleGCTyped(c *Ctx) {
	c.Rule("GC-TYPED", "every allocation, clear, copy and map operation done through the runtime is given the real run-time type of the memory (so the collector scans it)", 9)
	P := c.P
	for _, fn := range P.ModuleFuncs() {
		keys := callKeys(fn)
		for _, cs := range callsIn(fn) {
			if cs.Static == nil || !isLinknameStub(cs.Static) || !rtypeArgOf[cs.Static.Name()] {
				continue
			}
			ok, why := rtypeDerived(P, cs.Common.Args[0], 0)
			c.Check(ok, keys[cs.Instr], P.pos(cs.Instr.Pos()), "the type argument derives from unpackEFace(reflect.Type).data", "the runtime type argument of "+cs.Static.Name()+" is not derived from a reflect.Type: "+why)
		}
	}
}

func ruleGCUintptr(c *Ctx) {
	c.Rule("GC-UINTPTR", "no pointer is parked in a uintptr: conversions to uintptr feed only immediate arithmetic that is converted straight back, with no call in between", 2)
	P := c.P
	for _, fn := range P.ModuleFuncs() {
		n := 0
		for _, b := range fn.Blocks {
			for idx, in := range b.Instrs {
				cv, ok := in.(*ssa.Convert)
				if !ok {
					continue
				}
				bt, isB := cv.Type().Underlying().(*types.Basic)
				if isB && bt.Kind() == types.Uintptr && isUnsafePointer(cv.X.Type()) {
					n++
					key := fmt.Sprintf("%s/to-uintptr#%d", fnKey(fn), n)
					bad := ""
					var back []*ssa.Convert
					var walk func(v ssa.Value)
					walk = func(v ssa.Value) {
						for _, r := range referrersOf(v) {
							switch x := r.(type) {
							case *ssa.BinOp:
								walk(x)
							case *ssa.Convert:
								if isUnsafePointer(x.Type()) {
									back = append(back, x)
								} else {
									walk(x)
								}
							case *ssa.DebugRef:
							default:
								bad = "the integer form of the pointer is used by " + r.String()
							}
						}
					}
					walk(cv)
					for _, bk := range back {
						if bk.Block() != b {
							bad = "the pointer stays an integer across basic blocks"
							continue
						}
						for j := idx + 1; j < len(b.Instrs) && b.Instrs[j] != ssa.Instruction(bk); j++ {
							if _, isCall := b.Instrs[j].(ssa.CallInstruction); isCall {
								bad = "a call executes while the pointer is held as an integer"
							}
						}
					}
					if len(back) == 0 && bad == "" {
						bad = "converted to uintptr and never converted back in place"
					}
					c.Check(bad == "", key, P.pos(cv.Pos()), "used only in arithmetic converted straight back to unsafe.Pointer, no call in between", bad)
				}
				// integers forged into pointers
				if isUnsafePointer(cv.Type()) {
					if xb, ok := cv.X.Type().Underlying().(*types.Basic); ok && xb.Kind() == types.Uintptr {
						n++
						key := fmt.Sprintf("%s/from-uintptr#%d", fnKey(fn), n)
						ok := false
						var from func(v ssa.Value, d int) bool
						from = func(v ssa.Value, d int) bool {
							if d > 6 {
								return false
							}
							switch x := v.(type) {
							case *ssa.BinOp:
								return from(x.X, d+1) || from(x.Y, d+1)
							case *ssa.Convert:
								return isUnsafePointer(x.X.Type())
							case *ssa.Call:
								if sc := x.Call.StaticCallee(); sc != nil {
									q := qualName(sc)
									return q == "(reflect.Value).Pointer" || q == "(reflect.Value).UnsafeAddr"
								}
							}
							return false
						}
						ok = from(cv.X, 0)
						c.Check(ok, key, P.pos(cv.Pos()), "the integer converted to a pointer is pointer arithmetic on a live pointer or reflect.Value.Pointer() in the same expression", "an integer that does not derive from a live pointer in the same expression is converted to unsafe.Pointer")
					}
				}
			}
		}
	}
}

// ---------- linkname directives and toolchain oracle

type linkDirective struct {
	Local, Target string
	Pos           token.Pos
}

var linkRe = regexp.MustCompile(`^//go:linkname\s+(\S+)\s+(\S+)`)

func linknamesIn(pkg *packages.Package) []linkDirective {
	var out []linkDirective
	for _, f := range pkg.Syntax {
		for _, cg := range f.Comments {
			for _, cm := range cg.List {
				if m := linkRe.FindStringSubmatch(cm.Text); m != nil {
					out = append(out, linkDirective{m[1], m[2], cm.Pos()})
				}
			}
		}
	}
	return out
}

type toolchainPkgs struct {
	Version string
	Goroot  string
	Pkgs    map[string]*packages.Package
	Sizes   types.Sizes
	Err     string
}

// declaredToolchain reads the toolchain (or go) directive of the repo's go.mod.
func declaredToolchain(repo string) string {
	b, err := os.ReadFile(filepath.Join(repo, "go.mod"))
	if err != nil {
		return ""
	}
	goV, tc := "", ""
	for _, l := range strings.Split(string(b), "\n") {
		f := strings.Fields(l)
		if len(f) == 2 && f[0] == "toolchain" {
			tc = f[1]
		}
		if len(f) == 2 && f[0] == "go" {
			goV = "go" + f[1]
		}
	}
	if tc != "" {
		return tc
	}
	return goV
}

func findGoroot(version string) string {
	if version == "" {
		return ""
	}
	if runtime.Version() == version {
		return runtime.GOROOT()
	}
	cands := []string{"/opt/veriftools/" + version}
	mc := os.Getenv("GOMODCACHE")
	if mc == "" {
		gp := os.Getenv("GOPATH")
		if gp == "" {
			home, _ := os.UserHomeDir()
			gp = filepath.Join(home, "go")
		}
		mc = filepath.Join(gp, "pkg", "mod")
	}
	cands = append(cands, filepath.Join(mc, "golang.org", "toolchain@v0.0.1-"+version+".linux-amd64"))
	if !strings.Contains(strings.TrimPrefix(version, "go"), ".") || strings.Count(version, ".") == 1 {
		cands = append(cands, filepath.Join(mc, "golang.org", "toolchain@v0.0.1-"+version+".0.linux-amd64"))
	}
	for _, c := range cands {
		if st, err := os.Stat(filepath.Join(c, "bin", "go")); err == nil && !st.IsDir() {
			return c
		}
	}
	return ""
}

// loadToolchain type-checks runtime and reflect of the Go toolchain rooted at
// goroot, using that toolchain's own go command (so its build tags and
// experiments apply).
func loadToolchain(repo, version, goroot string) *toolchainPkgs {
	tp := &toolchainPkgs{Version: version, Goroot: goroot, Pkgs: map[string]*packages.Package{}}
	oldPath := os.Getenv("PATH")
	os.Setenv("PATH", filepath.Join(goroot, "bin")+string(os.PathListSeparator)+oldPath)
	defer os.Setenv("PATH", oldPath)
	env := append(os.Environ(), "GOROOT="+goroot, "GOTOOLCHAIN=local", "GOFLAGS=-mod=mod", "GOWORK=off", "GOPROXY=off")
	cfg := &packages.Config{Mode: packages.LoadAllSyntax, Dir: repo, Env: env}
	pkgs, err := packages.Load(cfg, "runtime", "reflect")
	if err != nil {
		tp.Err = err.Error()
		return tp
	}
	for _, p := range pkgs {
		if len(p.Errors) > 0 {
			tp.Err = fmt.Sprintf("%s: %v", p.PkgPath, p.Errors[0])
		}
		tp.Pkgs[p.PkgPath] = p
	}
	tp.Sizes = types.SizesFor("gc", "amd64")
	return tp
}

// resolveTarget finds the function a linkname target "pkg.name" denotes in
// the toolchain: a declaration in that package, or a function of runtime
// pushed to that name by a //go:linkname directive in runtime.
func (tp *toolchainPkgs) resolveTarget(target string) *types.Func {
	i := strings.LastIndex(target, ".")
	if i < 0 {
		return nil
	}
	pkgPath, name := target[:i], target[i+1:]
	if p := tp.Pkgs[pkgPath]; p != nil {
		if f, ok := p.Types.Scope().Lookup(name).(*types.Func); ok {
			// a body-less declaration in reflect is implemented by a push from runtime: prefer the implementation when found
			if impl := tp.pushed(target); impl != nil {
				return impl
			}
			return f
		}
	}
	return tp.pushed(target)
}

func (tp *toolchainPkgs) pushed(target string) *types.Func {
	rt := tp.Pkgs["runtime"]
	if rt == nil {
		return nil
	}
	for _, d := range linknamesIn(rt) {
		if d.Target == target {
			if f, ok := rt.Types.Scope().Lookup(d.Local).(*types.Func); ok {
				return f
			}
		}
	}
	return nil
}

func layoutIn(sizes types.Sizes, t types.Type) Layout {
	P := &Program{Sizes: sizes}
	return P.layoutOf(t)
}

func sigShape(sizes types.Sizes, sig *types.Signature) (params, results []Layout) {
	for i := 0; i < sig.Params().Len(); i++ {
		params = append(params, layoutIn(sizes, sig.Params().At(i).Type()))
	}
	for i := 0; i < sig.Results().Len(); i++ {
		results = append(results, layoutIn(sizes, sig.Results().At(i).Type()))
	}
	return
}

func avroPkg(P *Program) *packages.Package {
	for _, p := range P.Pkgs {
		if p.PkgPath == modPath {
			return p
		}
	}
	return nil
}

var toolchainCache = map[string]*toolchainPkgs{}

func getToolchain(P *Program, version string) *toolchainPkgs {
	if tp, ok := toolchainCache[version]; ok {
		return tp
	}
	goroot := findGoroot(version)
	var tp *toolchainPkgs
	if goroot == "" {
		tp = &toolchainPkgs{Version: version, Err: "toolchain " + version + " is not installed in this sandbox"}
	} else {
		tp = loadToolchain(P.Repo, version, goroot)
	}
	toolchainCache[version] = tp
	return tp
}

func ruleGCLink(c *Ctx) {
	P := c.P
	c.Rule("GC-LINKSIG", "each //go:linkname pull resolves in the toolchain the module declares and agrees with its target in arity and in the size and pointer shape of every parameter and result", 10)
	c.Rule("GC-ITER", "the stack iterator handed to the runtime's mapiterinit is at least as large as the struct the runtime writes and has a pointer word wherever the runtime stores a pointer (and only there)", 1)
	c.Rule("GC-SHADOW", "the module's shadow structs are layout-identical to the built-in representations they overlay", 2)
	ap := avroPkg(P)
	if !c.Anchor(ap != nil, "package avro syntax") {
		return
	}
	version := declaredToolchain(P.Repo)
	tp := getToolchain(P, version)
	if tp.Err != "" {
		c.Rule("GC-LINKSIG", "", 0)
		c.Unk("toolchain/"+version, "-", "cannot type-check runtime and reflect of the toolchain go.mod declares: "+tp.Err)
		return
	}
	c.Note("runtime oracle: %s at %s (the toolchain go.mod declares)", version, tp.Goroot)
	dirs := linknamesIn(ap)
	sort.Slice(dirs, func(i, j int) bool { return dirs[i].Local < dirs[j].Local })
	for _, d := range dirs {
		c.Rule("GC-LINKSIG", "", 0)
		key := "linkname/" + d.Local + "->" + d.Target
		local, _ := ap.Types.Scope().Lookup(d.Local).(*types.Func)
		target := tp.resolveTarget(d.Target)
		if local == nil {
			c.Unk(key, P.pos(d.Pos), "the local stub is not declared")
			continue
		}
		if target == nil {
			c.Bad(key, P.pos(d.Pos), fmt.Sprintf("%s does not exist in %s: the program would not link", d.Target, version))
			continue
		}
		lp, lr := sigShape(P.Sizes, local.Type().(*types.Signature))
		tpp, tr := sigShape(tp.Sizes, target.Type().(*types.Signature))
		ok := len(lp) == len(tpp) && len(lr) == len(tr)
		if ok {
			for i := range lp {
				if lp[i] != tpp[i] {
					ok = false
				}
			}
			for i := range lr {
				if lr[i] != tr[i] {
					ok = false
				}
			}
		}
		c.Check(ok, key, P.pos(d.Pos), fmt.Sprintf("resolves to %s; params %v results %v on both sides", target.FullName(), lp, lr), fmt.Sprintf("signature shape differs from %s: local params %v results %v, target params %v results %v", target.FullName(), lp, lr, tpp, tr))
		if d.Local == "mapiterinit" {
			c.Rule("GC-ITER", "", 0)
			ruleGCIter(c, P, tp, target, d)
		}
	}
	// shadow structs
	c.Rule("GC-SHADOW", "", 0)
	for _, sh := range []struct {
		name string
		like types.Type
	}{{"sliceHeader", types.NewSlice(types.Typ[types.Byte])}, {"eface", types.NewInterfaceType(nil, nil)}} {
		T := P.NamedType(P.Avro, sh.name)
		if !c.Anchor(T != nil, "shadow struct "+sh.name) {
			continue
		}
		la, lb := P.layoutOf(T), P.layoutOf(sh.like)
		c.Check(la == lb, "shadow/"+sh.name, "-", fmt.Sprintf("%s is %s like %s", sh.name, la, sh.like), fmt.Sprintf("%s is %s but %s is %s", sh.name, la, sh.like, lb))
	}
}

func ruleGCIter(c *Ctx, P *Program, tp *toolchainPkgs, target *types.Func, d linkDirective) {
	key := "mapiter~" + target.FullName()
	sig := target.Type().(*types.Signature)
	if sig.Params().Len() != 3 {
		c.Unk(key, P.pos(d.Pos), "runtime.mapiterinit no longer has three parameters")
		return
	}
	pt, ok := sig.Params().At(2).Type().Underlying().(*types.Pointer)
	if !ok {
		c.Unk(key, P.pos(d.Pos), "the iterator parameter of runtime.mapiterinit is not a pointer")
		return
	}
	rl := layoutIn(tp.Sizes, pt.Elem())
	// the module's iterator: the type of the local whose address is passed to mapiterinit
	var mine types.Type
	for _, fn := range P.ModuleFuncs() {
		for _, cs := range callsIn(fn) {
			if cs.Static != nil && cs.Static.Name() == "mapiterinit" && isLinknameStub(cs.Static) {
				if X, ok := addrOfVar(cs.Common.Args[2]); ok {
					mine = X
				} else if prm, isP := stripConv(cs.Common.Args[2]).(*ssa.Parameter); isP {
					// a method of the iterator type passing its own receiver: every caller hands in a pointer to that type
					if pt, isPtr := prm.Type().Underlying().(*types.Pointer); isPtr {
						if _, isStruct := pt.Elem().Underlying().(*types.Struct); isStruct {
							mine = pt.Elem()
						}
					}
				}
			}
		}
	}
	if mine == nil {
		c.Unk(key, P.pos(d.Pos), "no call of mapiterinit with the address of a local iterator found")
		return
	}
	ml := P.layoutOf(mine)
	ok2 := ml.Size >= rl.Size && strings.HasPrefix(ml.Map, rl.Map)
	c.Check(ok2, key, P.pos(d.Pos), fmt.Sprintf("%s is %s; the runtime's %s is %s: large enough, same pointer words", typeKey(mine), ml, pt.Elem(), rl),
		fmt.Sprintf("%s is %s but the runtime writes a %s laid out %s through it: too small, or a pointer the collector cannot see / a scalar it would follow", typeKey(mine), ml, pt.Elem(), rl))
}

// ---------- GC-TARGET

func ruleGCTarget(c *Ctx) {
	c.Rule("GC-TARGET", "ReadFile decodes into memory of the caller's real struct type: either the caller's own pointer with its element type, or a fresh allocation of the value's type", 2)
	if rfDecide(c, "target") {
		return
	}
	P := c.P
	s := findReadFile(P)
	if !c.Anchor(s.fn != nil && s.memclr != nil, "typedmemclr(rtyp, p) in ReadFile") {
		return
	}
	rt, p := s.memclr.Call.Args[0], s.memclr.Call.Args[1]
	rphi, ok1 := rt.(*ssa.Phi)
	pphi, ok2 := p.(*ssa.Phi)
	key := fnKey(s.fn) + "/target"
	if !ok1 || !ok2 || rphi.Block() != pphi.Block() {
		// single form
		c.Unk(key, P.pos(s.memclr.Pos()), "type and target are not a pair of phis in one block (idiom not understood)")
		return
	}
	var outParam *ssa.Parameter
	for _, prm := range s.fn.Params {
		if _, isI := prm.Type().Underlying().(*types.Interface); isI && prm != s.rParam {
			outParam = prm
		}
	}
	for i := range rphi.Edges {
		re, pe := rphi.Edges[i], pphi.Edges[i]
		k := fmt.Sprintf("%s#%d", key, i+1)
		rsrc := rtypeSource(re)
		switch x := pe.(type) {
		case *ssa.Call:
			// fresh allocation: unsafe_New(rtyp) with the same rtyp, rtyp = type of out
			ok := x.Call.StaticCallee() != nil && x.Call.StaticCallee().Name() == "unsafe_New" && x.Call.Args[0] == re && rsrc != nil && isTypeOfParam(rsrc, outParam)
			c.Check(ok, k, P.pos(x.Pos()), "fresh unsafe_New(type of out) cleared with the same type", "the freshly allocated target is not allocated with the run-time type of out that is used to clear it")
		case *ssa.UnOp:
			// caller's pointer: unpackEFace(out).data with rtyp = TypeOf(out).Elem() under Kind()==Ptr
			okp := false
			if fa, ok := x.X.(*ssa.FieldAddr); ok && fieldName(fa.X.Type(), fa.Field) == "data" {
				if call, ok := fa.X.(*ssa.Call); ok && call.Call.StaticCallee() != nil && call.Call.StaticCallee().Name() == "unpackEFace" && stripChange(call.Call.Args[0]) == ssa.Value(outParam) {
					okp = true
				}
			}
			okt := false
			if el, ok := rsrc.(*ssa.Call); ok && el.Call.IsInvoke() && el.Call.Method.Name() == "Elem" && isTypeOfParam(el.Call.Value, outParam) {
				for _, f := range factsAt(el.Block()) {
					if cmp, ok := asCmp(f.Cond, f.Truth); ok && cmp.Op == token.EQL {
						if k, isK := constInt(cmp.Y); isK && k == 22 {
							okt = true
						}
					}
				}
			}
			c.Check(okp && okt, k, P.pos(x.Pos()), "the caller's pointer, cleared with TypeOf(out).Elem() under Kind()==Ptr", "the caller's pointer is not paired with the element type of out under a pointer-kind test")
		default:
			c.Unk(k, P.pos(s.memclr.Pos()), "target comes from "+pe.String())
		}
	}
	_ = ast.NewIdent
}

func isTypeOfParam(v ssa.Value, prm *ssa.Parameter) bool {
	call, ok := stripChange(v).(*ssa.Call)
	return ok && prm != nil && call.Call.StaticCallee() != nil && qualName(call.Call.StaticCallee()) == "reflect.TypeOf" && stripChange(call.Call.Args[0]) == ssa.Value(prm)
}
