package main

// Canaries are implemented later in this file (thorough tier).
func runCanaries(c *Ctx, repo, verif string, seed int, extra map[string]any) {}
