package main

// E-FU (field-use symmetry) and the logical-type tables: TS-MULT, TS-UNIT,
// TS-READ.

import (
	"fmt"
	"go/token"
	"go/types"
	"os"
	"sort"
	"strings"

	"golang.org/x/tools/go/ssa"
)

// fieldsLoaded returns the names of fields of struct type T loaded in fn or
// in module functions fn hands its receiver to (transitively, bounded).
func fieldsLoaded(P *Program, fn *ssa.Function, T types.Type, seen map[*ssa.Function]bool, out map[string]bool) {
	if fn == nil || fn.Blocks == nil || seen[fn] {
		return
	}
	seen[fn] = true
	isT := func(t types.Type) bool {
		t = types.Unalias(t)
		if p, ok := t.Underlying().(*types.Pointer); ok {
			t = types.Unalias(p.Elem())
		}
		return types.Identical(t, T)
	}
	for _, b := range fn.Blocks {
		for _, in := range b.Instrs {
			switch x := in.(type) {
			case *ssa.FieldAddr:
				if isT(x.X.Type()) {
					// a load (not only a store) through this address?
					for _, r := range referrersOf(x) {
						if u, ok := r.(*ssa.UnOp); ok && u.Op == token.MUL {
							out[fieldName(x.X.Type(), x.Field)] = true
						}
						if _, ok := r.(*ssa.FieldAddr); ok { // embedded struct accessed further
							out[fieldName(x.X.Type(), x.Field)] = true
						}
					}
				}
			case *ssa.Field:
				if isT(x.X.Type()) {
					out[fieldNameT(x.X.Type(), x.Field)] = true
				}
			case ssa.CallInstruction:
				cc := x.Common()
				if sc := cc.StaticCallee(); sc != nil && P.isModuleFunc(sc) && sc.Signature.Recv() != nil && len(cc.Args) > 0 && isT(cc.Args[0].Type()) {
					fieldsLoaded(P, sc, T, seen, out)
				}
			}
		}
	}
}

func ruleEFU(c *Ctx, prefix string, min int) {
	c.Rule("E-FU", "a scalar configuration field that decides how bytes are read also decides how they are written (and vice versa)", min)
	P := c.P
	for _, ct := range P.CodecTypes() {
		if !strings.HasPrefix(ct.Name, prefix) {
			continue
		}
		st, ok := ct.T.Underlying().(*types.Struct)
		if !ok {
			continue
		}
		rd, wr := map[string]bool{}, map[string]bool{}
		for _, m := range []string{"Read", "Skip"} {
			if ct.Declared[m] {
				fieldsLoaded(P, ct.M[m], ct.T, map[*ssa.Function]bool{}, rd)
			}
		}
		if ct.Declared["Write"] {
			fieldsLoaded(P, ct.M["Write"], ct.T, map[*ssa.Function]bool{}, wr)
		}
		for i := 0; i < st.NumFields(); i++ {
			f := st.Field(i)
			b, isB := f.Type().Underlying().(*types.Basic)
			if !isB || f.Name() == "omitEmpty" || b.Info()&(types.IsInteger|types.IsFloat|types.IsString) == 0 {
				continue
			}
			if !ct.Declared["Write"] || !(ct.Declared["Read"] || ct.Declared["Skip"]) {
				continue
			}
			key := ct.Name + "." + f.Name()
			pos := P.pos(f.Pos())
			switch {
			case rd[f.Name()] && wr[f.Name()]:
				c.OK(key, pos, "consulted by both the reading and the writing side")
			case !rd[f.Name()] && !wr[f.Name()]:
				c.OKTrivial(key, pos, "consulted by neither side")
			case rd[f.Name()]:
				c.Bad(key, pos, fmt.Sprintf("Read/Skip interpret the bytes according to %s but Write ignores it: for at least one value the builder can assign, what is written is not what would be read back", f.Name()))
			default:
				c.Bad(key, pos, fmt.Sprintf("Write depends on %s but Read/Skip ignore it", f.Name()))
			}
		}
	}
}

// lastStoreOnPath returns the value last stored to field fld of literal a
// along the blocks of path p (in execution order).
func lastStoreOnPath(p *BTPath, a *ssa.Alloc, fld string) ssa.Value {
	var last ssa.Value
	for _, b := range p.Blocks {
		for _, in := range b.Instrs {
			st, ok := in.(*ssa.Store)
			if !ok {
				continue
			}
			fa, ok := st.Addr.(*ssa.FieldAddr)
			if ok && fa.X == ssa.Value(a) && fieldName(fa.X.Type(), fa.Field) == fld {
				last = st.Val
			}
		}
	}
	return last
}

// specTimeUnits: Avro logical types on long and the nanoseconds per unit the
// library's nanosecond convention implies.
var specTimeUnits = map[string]int64{"timestamp-micros": 1000, "timestamp-millis": 1000000}

var nsPerUnitOfMethod = map[string]int64{"(time.Time).UnixNano": 1, "(time.Time).UnixMicro": 1000, "(time.Time).UnixMilli": 1000000, "(time.Time).Unix": 1000000000}

func ruleTSMult(c *Ctx) {
	c.Rule("TS-MULT", "the multiplier chosen for a long-encoded time is the number of nanoseconds in the logical type's unit (micros 10^3, millis 10^6, none 1)", 3)
	c.Rule("TS-UNIT", "the writer converts a time to the unit whose size is the multiplier the reader uses", 1)
	c.Rule("TS-READ", "the reader turns the stored long into nanoseconds by multiplying with the multiplier", 1)
	P := c.P
	e := getBT(P)
	var b *Builder
	for _, r := range findRegistrations(P) {
		if r.In.Pkg == P.Time && r.Builder != nil {
			b = e.byFn[r.Builder]
		}
	}
	if !c.Anchor(b != nil && b.Schema != nil, "time codec builder registered by time.RegisterCodecs") {
		return
	}
	c.Rule("TS-MULT", "", 0)
	if tsByFold(c, b) {
		return
	}
	lt := "*(*(&" + b.Schema.Name() + "->Object)->LogicalType)"
	sp := "*(&" + b.Schema.Name() + "->Type)"
	seen := map[string]int64{}
	mults := map[int64]bool{}
	for _, p := range b.Paths {
		r := P.classifyReturn(p)
		if r.Codec == nil || typeKey(r.Codec) != "time.LongCodec" {
			continue
		}
		if st, exact, _ := p.State.strOf(sp); !exact || st != "long" {
			c.Bad(fnKey(b.Fn)+"/long-codec-under", P.pos(p.Ret.Pos()), "the long time codec is returned for a schema type other than long")
			continue
		}
		a, _ := r.Lit.(*ssa.Alloc)
		if a == nil {
			c.Unk(fnKey(b.Fn)+"/mult", P.pos(p.Ret.Pos()), "the long codec literal is not a local")
			continue
		}
		mv := lastStoreOnPath(p, a, "mult")
		m, okM := int64(0), false
		if mv != nil {
			m, okM = (Folder{P}).FoldInt(mv)
		}
		if mv != nil && !okM {
			// the multiplier is computed by a pure helper from the logical type: tabulate it
			if tab, okT := multTable(P, mv, b.Schema); okT {
				for _, name := range []string{"(none)", "timestamp-micros", "timestamp-millis", "(other)"} {
					want, has := specTimeUnits[name]
					if !has {
						want = 1
					}
					got, okG := tab[name]
					key := fmt.Sprintf("%s/mult[%s]", fnKey(b.Fn), name)
					if _, dup := seen[key]; dup {
						continue
					}
					seen[key] = got
					mults[got] = true
					c.Check(okG && got == want, key, P.pos(p.Ret.Pos()), fmt.Sprintf("logical type %s -> %d ns per unit (tabulated from the helper that computes it)", name, got), fmt.Sprintf("logical type %s gets multiplier %d, the specification's unit is %d ns", name, got, want))
				}
				continue
			}
		}
		name, exact, _ := p.State.strOf(lt)
		if !exact {
			name = "(none)"
		}
		want, has := specTimeUnits[name]
		if !has {
			want = 1
		}
		key := fmt.Sprintf("%s/mult[%s]", fnKey(b.Fn), name)
		if _, dup := seen[key]; dup && seen[key] == m {
			continue
		}
		seen[key] = m
		mults[m] = true
		c.Check(okM && m == want, key, P.pos(p.Ret.Pos()), fmt.Sprintf("logical type %s -> %d ns per unit", name, m), fmt.Sprintf("logical type %s gets multiplier %d, the specification's unit is %d ns", name, m, want))
	}
	for name := range specTimeUnits {
		if _, ok := seen[fmt.Sprintf("%s/mult[%s]", fnKey(b.Fn), name)]; !ok {
			c.Bad(fmt.Sprintf("%s/mult[%s]", fnKey(b.Fn), name), P.pos(b.Fn.Pos()), "no case for logical type "+name)
		}
	}
	// TS-READ / TS-UNIT on the long codec's methods
	ct := e.byType["time.LongCodec"]
	if !c.Anchor(ct != nil, "time.LongCodec") {
		return
	}
	c.Rule("TS-READ", "", 0)
	rd := ct.M["Read"]
	okRead := false
	for _, cs := range callsIn(rd) {
		if cs.Static != nil && qualName(cs.Static) == "time.Unix" && len(cs.Common.Args) == 2 {
			z, isZ := constInt(cs.Common.Args[0])
			bo, isMul := cs.Common.Args[1].(*ssa.BinOp)
			if isZ && z == 0 && isMul && bo.Op == token.MUL {
				x, y := bo.X, bo.Y
				if f, ok := recvFieldOf(rd, y); ok && f == "mult" {
					okRead = x != nil
				}
				if f, ok := recvFieldOf(rd, x); ok && f == "mult" {
					okRead = true
				}
			}
		}
	}
	c.Check(okRead, "time.LongCodec/Read-scale", P.pos(rd.Pos()), "time.Unix(0, l*c.mult): the stored long times mult is nanoseconds", "the reader does not compute time.Unix(0, l*c.mult)")
	c.Rule("TS-UNIT", "", 0)
	wr := ct.M["Write"]
	// the conversion to the unit may live in a helper method of the codec (units(t) int64): judge its paths
	hasUnitCall := func(f *ssa.Function) bool {
		for _, cs := range callsIn(f) {
			if cs.Static != nil {
				if _, has := nsPerUnitOfMethod[qualName(cs.Static)]; has {
					return true
				}
			}
		}
		return false
	}
	if !hasUnitCall(wr) {
		for _, cs := range callsIn(wr) {
			if cs.Static != nil && P.isModuleFunc(cs.Static) && cs.Static.Signature.Recv() != nil && len(cs.Common.Args) > 0 && recvIsOurs(wr, cs.Common.Args[0]) && hasUnitCall(cs.Static) {
				wr = cs.Static
			}
		}
	}
	paths, ok := enumeratePaths(wr)
	if !ok {
		c.Unk("time.LongCodec/Write-unit", P.pos(wr.Pos()), "path budget exceeded")
		return
	}
	var ms []int64
	for m := range mults {
		ms = append(ms, m)
	}
	sort.Slice(ms, func(i, j int) bool { return ms[i] < ms[j] })
	multPath := ""
	for _, p := range paths {
		for k := range p.State.eq {
			if strings.HasSuffix(k, "->mult)") {
				multPath = k
			}
		}
	}
	n := 0
	for _, p := range paths {
		if p.Ret == nil {
			continue
		}
		// the unit method whose result is written on this path
		unit := int64(0)
		for _, b := range p.Blocks {
			for _, in := range b.Instrs {
				if call, ok := in.(*ssa.Call); ok && call.Call.StaticCallee() != nil {
					if u, has := nsPerUnitOfMethod[qualName(call.Call.StaticCallee())]; has {
						unit = u
					}
				}
			}
		}
		// multipliers the builder can assign that are consistent with this path
		var possible []int64
		for _, m := range ms {
			ks := fmt.Sprint(m)
			if multPath == "" {
				possible = append(possible, m)
				continue
			}
			if v, ok := p.State.eq[multPath]; ok {
				if v == ks {
					possible = append(possible, m)
				}
			} else if !p.State.ne[multPath][ks] {
				possible = append(possible, m)
			}
		}
		if len(possible) == 0 {
			continue
		}
		n++
		key := fmt.Sprintf("time.LongCodec/Write-unit[mult=%v]", possible)
		okU := unit != 0
		for _, m := range possible {
			if m != unit {
				okU = false
			}
		}
		c.Check(okU, key, P.pos(wr.Pos()), fmt.Sprintf("writes the time in units of %d ns where the reader multiplies by %v", unit, possible), fmt.Sprintf("writes the time in units of %d ns although the builder can set the multiplier to %v: a written time does not decode to the same instant", unit, possible))
	}
	if n == 0 {
		c.Bad("time.LongCodec/Write-unit", P.pos(wr.Pos()), "no write path found")
	}
}

// multTable tabulates mv = f(arg) for the logical types of interest, where f
// is a pure module function from a string to an integer and arg is either
// the schema's logical type itself or g(schema) for a pure module function g
// returning it (or "" when the schema has no object part).
func multTable(P *Program, mv ssa.Value, schema *ssa.Parameter) (map[string]int64, bool) {
	call, ok := stripConv(mv).(*ssa.Call)
	if !ok || call.Call.StaticCallee() == nil || len(call.Call.Args) != 1 {
		return nil, false
	}
	f := call.Call.StaticCallee()
	if !P.isModuleFunc(f) || !pureValueHelper(f) {
		return nil, false
	}
	out := map[string]int64{}
	// f(schema.Object): a helper from the (possibly nil) object part straight to the multiplier
	if strings.HasSuffix(accessPath(call.Call.Args[0]), "->Object)") {
		for name, s := range map[string]string{"(none)": "", "timestamp-micros": "timestamp-micros", "timestamp-millis": "timestamp-millis", "(other)": "x-some-other-logical-type"} {
			k, okK := evalIntOfObject(P, f, name == "(none)", s)
			if !okK {
				return nil, false
			}
			out[name] = k
		}
		return out, true
	}
	for name, s := range map[string]string{"(none)": "", "timestamp-micros": "timestamp-micros", "timestamp-millis": "timestamp-millis", "(other)": "x-some-other-logical-type"} {
		arg := call.Call.Args[0]
		sv := s
		if g, isCall := arg.(*ssa.Call); isCall {
			gf := g.Call.StaticCallee()
			if gf == nil || !P.isModuleFunc(gf) || !pureValueHelper(gf) || len(g.Call.Args) != 1 || stripLoadOfParam(g.Call.Args[0]) != ssa.Value(schema) {
				return nil, false
			}
			v, okS := evalStringOfSchema(gf, name == "(none)", s)
			if !okS {
				return nil, false
			}
			sv = v
		} else if !strings.HasSuffix(accessPath(arg), "->Object)->LogicalType)") {
			return nil, false
		}
		k, okK := evalIntOfString(P, f, sv)
		if !okK {
			return nil, false
		}
		out[name] = k
	}
	return out, true
}

// pureValueHelper: no stores, no calls other than builtins.
func pureValueHelper(fn *ssa.Function) bool {
	if fn == nil || fn.Blocks == nil || len(fn.Blocks) > 40 {
		return false
	}
	for _, b := range fn.Blocks {
		for _, in := range b.Instrs {
			switch x := in.(type) {
			case *ssa.MapUpdate, *ssa.Send, *ssa.Go, *ssa.Defer, *ssa.Panic:
				return false
			case *ssa.Store:
				// spilling a by-value parameter to its own local is not an effect
				if a, ok := x.Addr.(*ssa.Alloc); ok && !a.Heap {
					if _, isP := x.Val.(*ssa.Parameter); isP {
						continue
					}
				}
				return false
			case *ssa.Call:
				if _, isB := x.Call.Value.(*ssa.Builtin); !isB {
					return false
				}
			}
		}
	}
	return true
}

// evalIntOfString: the constant f returns on every path consistent with its
// string parameter being val.
func evalIntOfString(P *Program, f *ssa.Function, val string) (int64, bool) {
	paths, ok := enumeratePaths(f)
	if !ok || len(f.Params) != 1 {
		return 0, false
	}
	pp := f.Params[0].Name()
	var res int64
	n := 0
	for _, p := range paths {
		if p.Ret == nil {
			return 0, false
		}
		v, exact, ex := p.State.strOf(pp)
		if exact && v != val || !exact && contains(ex, val) {
			continue
		}
		rv := resolvedResults(p.Ret)[0]
		if phi, isPhi := rv.(*ssa.Phi); isPhi {
			rv = phiValueOnPath(phi, p.Blocks)
		}
		k, okK := (Folder{P}).FoldInt(rv)
		if !okK || n > 0 && k != res {
			return 0, false
		}
		res = k
		n++
	}
	return res, n > 0
}

// evalStringOfSchema: what g(schema) returns when the schema has no object
// part (objNil) or has one whose logical type is lt.
func evalStringOfSchema(g *ssa.Function, objNil bool, lt string) (string, bool) {
	paths, ok := enumeratePaths(g)
	if !ok || len(g.Params) != 1 {
		return "", false
	}
	res, n := "", 0
	for _, p := range paths {
		if p.Ret == nil {
			return "", false
		}
		// the path's belief about schema.Object
		consistent := true
		for k, v := range p.State.eq {
			if strings.HasSuffix(k, "->Object)") && (v == "nil") != objNil {
				consistent = false
			}
		}
		for k, m := range p.State.ne {
			if strings.HasSuffix(k, "->Object)") && m["nil"] && objNil {
				consistent = false
			}
		}
		if !consistent {
			continue
		}
		rv := resolvedResults(p.Ret)[0]
		if phi, isPhi := rv.(*ssa.Phi); isPhi {
			rv = phiValueOnPath(phi, p.Blocks)
		}
		var got string
		if cs, isS := constString(rv); isS {
			got = cs
		} else if strings.HasSuffix(accessPath(rv), "->Object)->LogicalType)") && !objNil {
			got = lt
		} else {
			return "", false
		}
		if n > 0 && got != res {
			return "", false
		}
		res = got
		n++
	}
	return res, n > 0
}

// evalIntOfObject: the constant f(obj) returns on every path consistent with
// obj being nil (objNil) or non-nil with logical type lt.
func evalIntOfObject(P *Program, f *ssa.Function, objNil bool, lt string) (int64, bool) {
	paths, ok := enumeratePaths(f)
	if !ok || len(f.Params) != 1 {
		return 0, false
	}
	pp := f.Params[0].Name()
	var res int64
	n := 0
	for _, p := range paths {
		if p.Ret == nil {
			return 0, false
		}
		consistent := true
		if v, has := p.State.eq[pp]; has && (v == "nil") != objNil {
			consistent = false
		}
		if p.State.ne[pp]["nil"] && objNil {
			consistent = false
		}
		for k, v := range p.State.eq {
			if strings.HasSuffix(k, "->LogicalType)") {
				if objNil || strings.TrimPrefix(v, "s:") != lt {
					consistent = false
				}
			}
		}
		for k, m := range p.State.ne {
			if strings.HasSuffix(k, "->LogicalType)") {
				if objNil || m["s:"+lt] {
					consistent = false
				}
			}
		}
		if !consistent {
			continue
		}
		rv := resolvedResults(p.Ret)[0]
		if phi, isPhi := rv.(*ssa.Phi); isPhi {
			rv = phiValueOnPath(phi, p.Blocks)
		}
		k, okK := (Folder{P}).FoldInt(rv)
		if !okK || n > 0 && k != res {
			return 0, false
		}
		res = k
		n++
	}
	return res, n > 0
}

// tsByFold decides TS-MULT, TS-READ and TS-UNIT by folding the time codec
// builder and the long codec's Read and Write for the specification's logical
// types (E-CP). It reports false, having emitted nothing, when a fold fails;
// the caller then reads the code the older, syntactic way.
func tsByFold(c *Ctx, b *Builder) bool {
	P := c.P
	fn := b.Fn
	si := -1
	for i, p := range fn.Params {
		if typeKey(p.Type()) == "avro.Schema" {
			si = i
		}
	}
	if si < 0 {
		return false
	}
	schemaT := fn.Params[si].Type()
	st, ok := schemaT.Underlying().(*types.Struct)
	if !ok {
		return false
	}
	var objT types.Type
	for i := 0; i < st.NumFields(); i++ {
		if st.Field(i).Name() == "Object" {
			if pt, ok := st.Field(i).Type().Underlying().(*types.Pointer); ok {
				objT = pt.Elem()
			}
		}
	}
	if objT == nil {
		return false
	}
	type kase struct {
		name   string
		objNil bool
		lt     string
	}
	cases := []kase{{"(none)", true, ""}, {"(none)", false, ""}, {"timestamp-micros", false, "timestamp-micros"}, {"timestamp-millis", false, "timestamp-millis"}, {"(other)", false, "x-some-other-logical-type"}}
	type verdict struct {
		key, pos, good, bad string
		ok                  bool
	}
	var vs []verdict
	mults := map[int64]bool{}
	var longT types.Type
	multField := ""
	got := map[string]int64{}
	for _, k := range cases {
		var obj cpVal = cpNil{}
		if !k.objNil {
			obj = cpPtrTo(cpStructOf(objT, map[string]cpVal{"LogicalType": cpStr{k.lt}}), objT)
		}
		args := make([]cpVal, len(fn.Params))
		for i, p := range fn.Params {
			args[i] = cpUnk{ID: "arg:" + p.Name()}
		}
		args[si] = cpStructOf(schemaT, map[string]cpVal{"Type": cpStr{"long"}, "Object": obj})
		outs, ok, _ := cpFold(P, fn, args)
		if !ok || len(outs) == 0 {
			return false
		}
		key := fmt.Sprintf("%s/mult[%s]", fnKey(fn), k.name)
		for _, o := range outs {
			if o.Panics || len(o.Results) != 2 {
				return false
			}
			iv, isI := o.Results[0].(cpIface)
			if _, errNil := o.Results[1].(cpNil); !isI || !errNil || typeKey(iv.T) != "time.LongCodec" {
				vs = append(vs, verdict{key: key, pos: P.pos(fn.Pos()), bad: fmt.Sprintf("a long schema with logical type %s does not always yield the long time codec", k.name)})
				continue
			}
			longT = iv.T
			if multField == "" {
				multField = soleIntField(iv.T)
			}
			mv, has := cpFieldByName(iv.V, multField)
			if !has {
				return false
			}
			m := int64(0)
			if mv != nil {
				mi, isInt := mv.(cpInt)
				if !isInt {
					return false
				}
				m = mi.V
			}
			want, hasW := specTimeUnits[k.name]
			if !hasW {
				want = 1
			}
			mults[m] = true
			if prev, dup := got[key]; dup && prev == m {
				continue
			}
			got[key] = m
			vs = append(vs, verdict{key: key, pos: P.pos(fn.Pos()), ok: m == want,
				good: fmt.Sprintf("logical type %s -> %d ns per unit (the builder folded for that schema)", k.name, m),
				bad:  fmt.Sprintf("logical type %s gets multiplier %d, the specification's unit is %d ns", k.name, m, want)})
		}
	}
	if longT == nil || multField == "" {
		return false
	}
	// Read and Write of the long codec, folded for every multiplier the builder can assign
	rd := P.Prog.LookupMethod(longT, nil, "Read")
	wr := P.Prog.LookupMethod(longT, nil, "Write")
	if rd == nil || wr == nil || rd.Blocks == nil || wr.Blocks == nil {
		return false
	}
	var ms []int64
	for m := range mults {
		ms = append(ms, m)
	}
	sort.Slice(ms, func(i, j int) bool { return ms[i] < ms[j] })
	type rw struct {
		readOK  bool
		readWhy string
		unit    map[int64]bool
		unitAll bool
	}
	res := map[int64]*rw{}
	for _, m := range ms {
		recv := cpStructUnknownExcept(longT, map[string]cpVal{multField: cpInt{m}})
		r := &rw{unit: map[int64]bool{}, unitAll: true}
		res[m] = r
		// Read
		outs, ok, _ := cpFold(P, rd, []cpVal{recv, cpUnk{ID: "arg:r"}, cpUnk{ID: "arg:p"}})
		if !ok {
			return false
		}
		seenUnix := false
		r.readOK = true
		for _, o := range outs {
			if os.Getenv("DBG_CP") != "" {
				fmt.Fprintf(os.Stderr, "CP m=%d outcome results=%#v\n", m, o.Results)
				for _, cl := range o.Calls {
					fmt.Fprintf(os.Stderr, "   call %s %#v\n", cl.Callee, cl.Args)
				}
			}
			for _, cl := range o.Calls {
				if cl.Callee != "time.Unix" || len(cl.Args) != 2 {
					continue
				}
				seenUnix = true
				z, isZ := cl.Args[0].(cpInt)
				good := isZ && z.V == 0
				switch a := cl.Args[1].(type) {
				case cpLin:
					good = good && a.Mul == m && a.Add == 0
				case cpUnk:
					good = good && m == 1
				default:
					good = false
				}
				if !good {
					r.readOK = false
					r.readWhy = fmt.Sprintf("with multiplier %d the reader calls time.Unix with something other than (0, stored long * %d): %#v", m, m, cl.Args)
				}
			}
		}
		if !seenUnix {
			r.readOK, r.readWhy = false, "the reader does not compute time.Unix(0, l*mult)"
		}
		// Write
		outs, ok, _ = cpFold(P, wr, []cpVal{recv, cpUnk{ID: "arg:w"}, cpUnk{ID: "arg:p"}})
		if !ok {
			return false
		}
		for _, o := range outs {
			if o.Panics {
				continue
			}
			n := 0
			for _, cl := range o.Calls {
				if u, has := nsPerUnitOfMethod[cl.Callee]; has {
					r.unit[u] = true
					n++
				}
			}
			if n != 1 {
				r.unitAll = false
			}
		}
	}
	// everything folded: emit
	for _, v := range vs {
		if v.good == "" && v.bad != "" {
			c.Bad(v.key, v.pos, v.bad)
		} else {
			c.Check(v.ok, v.key, v.pos, v.good, v.bad)
		}
	}
	for name := range specTimeUnits {
		if _, ok := got[fmt.Sprintf("%s/mult[%s]", fnKey(fn), name)]; !ok {
			c.Bad(fmt.Sprintf("%s/mult[%s]", fnKey(fn), name), P.pos(fn.Pos()), "no case for logical type "+name)
		}
	}
	c.Rule("TS-READ", "", 0)
	okRead, why := true, ""
	for _, m := range ms {
		if !res[m].readOK {
			okRead, why = false, res[m].readWhy
		}
	}
	c.Check(okRead, "time.LongCodec/Read-scale", P.pos(rd.Pos()), fmt.Sprintf("folded for multipliers %v: time.Unix(0, stored long * mult)", ms), why)
	c.Rule("TS-UNIT", "", 0)
	for _, m := range ms {
		r := res[m]
		var units []int64
		for u := range r.unit {
			units = append(units, u)
		}
		sort.Slice(units, func(i, j int) bool { return units[i] < units[j] })
		key := fmt.Sprintf("time.LongCodec/Write-unit[mult=[%d]]", m)
		good := r.unitAll && len(units) == 1 && units[0] == m
		c.Check(good, key, P.pos(wr.Pos()), fmt.Sprintf("writes the time in units of %d ns where the reader multiplies by %d (Write folded for that multiplier)", m, m), fmt.Sprintf("writes the time in units of %v ns although the builder can set the multiplier to [%d]: a written time does not decode to the same instant", units, m))
	}
	return true
}

// soleIntField: the name of the only integer-typed (non-embedded) field of a struct type.
func soleIntField(t types.Type) string {
	st, ok := t.Underlying().(*types.Struct)
	if !ok {
		return ""
	}
	name := ""
	for i := 0; i < st.NumFields(); i++ {
		f := st.Field(i)
		if b, ok := f.Type().Underlying().(*types.Basic); ok && b.Info()&types.IsInteger != 0 && !f.Embedded() {
			if name != "" {
				return ""
			}
			name = f.Name()
		}
	}
	return name
}

// ---------- TS-WIDE

// narrowProducts: multiplications (and left shifts) carried out in an integer
// type narrower than 64 bits on a non-constant operand whose result is then
// widened: the product wraps in the narrow type before the conversion can
// help ("int64(days * 86400)" with an int32 days).
func narrowProducts(fns []*ssa.Function) []*ssa.BinOp {
	var out []*ssa.BinOp
	for _, fn := range fns {
		for _, b := range fn.Blocks {
			for _, in := range b.Instrs {
				bo, ok := in.(*ssa.BinOp)
				if !ok || (bo.Op != token.MUL && bo.Op != token.SHL) {
					continue
				}
				bt, ok := bo.Type().Underlying().(*types.Basic)
				if !ok || bt.Info()&types.IsInteger == 0 {
					continue
				}
				switch bt.Kind() {
				case types.Int8, types.Int16, types.Int32, types.Uint8, types.Uint16, types.Uint32:
				default:
					continue
				}
				// a constant factor is needed for the product to be "a unit conversion"; two variables multiplied in
				// a narrow type is no better
				widened := false
				for _, r := range referrersOf(bo) {
					if cv, ok := r.(*ssa.Convert); ok {
						if tb, ok := cv.Type().Underlying().(*types.Basic); ok && tb.Info()&types.IsInteger != 0 {
							switch tb.Kind() {
							case types.Int64, types.Uint64, types.Int, types.Uint, types.Uintptr:
								widened = true
							}
						}
					}
				}
				if widened {
					out = append(out, bo)
				}
			}
		}
	}
	return out
}

func ruleTSWide(c *Ctx) {
	c.Rule("TS-WIDE", "no product is formed in a 32-bit (or narrower) integer type and widened afterwards: a day or unit count times a constant is computed in 64 bits", 0)
	P := c.P
	n := 0
	for _, bo := range narrowProducts(P.ModuleFuncs()) {
		n++
		c.Bad(fmt.Sprintf("%s/narrow-product#%d", fnKey(bo.Parent()), n), P.pos(bo.Pos()), fmt.Sprintf("%s is computed in %s and widened afterwards: it wraps for large operands before the conversion (a date beyond ±24855 days decodes to a different instant)", strings.TrimSpace(bo.String()), bo.Type()))
	}
	if n == 0 {
		c.OK("module/no-narrow-product", "-", "no multiplication or shift in a sub-64-bit integer type is widened afterwards")
	}
	fx := buildFixture(`package fx
func bad(d int32) int64 { return int64(d * 86400) }
func good(d int32) int64 { return int64(d) * 86400 }
func alsoGood(a, b int32) int32 { return a * b }
`)
	if fx == nil {
		c.Unk("fixture/TS-WIDE", "-", "fixture package did not build")
		return
	}
	var ffns []*ssa.Function
	for _, m := range fx.Members {
		if f, ok := m.(*ssa.Function); ok {
			ffns = append(ffns, f)
		}
	}
	hits := map[string]bool{}
	for _, bo := range narrowProducts(ffns) {
		hits[bo.Parent().Name()] = true
	}
	o := c.ob(Discharged, "fixture/TS-WIDE", "-", fmt.Sprintf("positive fixture: flagged %v (expected exactly bad)", hits), false)
	if !(len(hits) == 1 && hits["bad"]) {
		o.Verdict, o.VerdictS = Undecided, "undecided"
	}
}

// ---------- TS-NARROW

// narrowedDividends: divisions and remainders whose dividend was narrowed from a 64-bit integer to 32 bits or
// fewer just before ("int32(t.Unix()) / 86400"): the truncation hits the value before the division has
// brought it into the narrow type's range, so the quotient is wrong for every value beyond ±2^31 although
// the quotient itself would have fitted.
func narrowedDividends(fns []*ssa.Function) []*ssa.BinOp {
	var out []*ssa.BinOp
	is64 := func(t types.Type) bool {
		b, ok := t.Underlying().(*types.Basic)
		if !ok || b.Info()&types.IsInteger == 0 {
			return false
		}
		switch b.Kind() {
		case types.Int64, types.Uint64, types.Int, types.Uint, types.Uintptr:
			return true
		}
		return false
	}
	isNarrow := func(t types.Type) bool {
		b, ok := t.Underlying().(*types.Basic)
		if !ok || b.Info()&types.IsInteger == 0 {
			return false
		}
		switch b.Kind() {
		case types.Int8, types.Int16, types.Int32, types.Uint8, types.Uint16, types.Uint32:
			return true
		}
		return false
	}
	for _, fn := range fns {
		for _, b := range fn.Blocks {
			for _, in := range b.Instrs {
				bo, ok := in.(*ssa.BinOp)
				if !ok || (bo.Op != token.QUO && bo.Op != token.REM) || !isNarrow(bo.Type()) {
					continue
				}
				x := bo.X
				for i := 0; i < 3; i++ {
					if ct, isCT := x.(*ssa.ChangeType); isCT {
						x = ct.X
					}
				}
				cv, ok := x.(*ssa.Convert)
				if !ok || !is64(cv.X.Type()) {
					continue
				}
				// a dividend that was itself reduced in 64 bits first (a quotient, a remainder, a masked or shifted
				// value) is a different matter: the narrowing then follows a reduction
				if inner, isB := cv.X.(*ssa.BinOp); isB {
					switch inner.Op {
					case token.QUO, token.REM, token.AND, token.SHR:
						continue
					}
				}
				out = append(out, bo)
			}
		}
	}
	return out
}

func ruleTSNarrow(c *Ctx) {
	c.Rule("TS-NARROW", "no 64-bit quantity is narrowed to 32 bits or fewer and divided afterwards: the division that brings a count of seconds into the range of a day number is carried out before the narrowing", 0)
	P := c.P
	n := 0
	for _, bo := range narrowedDividends(P.ModuleFuncs()) {
		n++
		c.Bad(fmt.Sprintf("%s/narrowed-dividend#%d", fnKey(bo.Parent()), n), P.pos(bo.Pos()), fmt.Sprintf("%s divides a value that was narrowed from 64 bits to %s first: the truncation precedes the reduction, so every instant beyond ±2^31 units gives a wrong quotient although the quotient itself fits", strings.TrimSpace(bo.String()), bo.Type()))
	}
	if n == 0 {
		c.OK("module/no-narrowed-dividend", "-", "no division or remainder in a sub-64-bit integer type takes a dividend narrowed from 64 bits")
	}
	fx := buildFixture(`package fx
func bad(s int64) int32 { return int32(s) / 86400 }
func good(s int64) int32 { return int32(s / 86400) }
func alsoGood(s int64) int32 { return int32(s%1000) / 10 }
func fine(a, b int32) int32 { return a / b }
`)
	if fx == nil {
		c.Unk("fixture/TS-NARROW", "-", "fixture package did not build")
		return
	}
	var ffns []*ssa.Function
	for _, m := range fx.Members {
		if f, ok := m.(*ssa.Function); ok {
			ffns = append(ffns, f)
		}
	}
	hits := map[string]bool{}
	for _, bo := range narrowedDividends(ffns) {
		hits[bo.Parent().Name()] = true
	}
	o := c.ob(Discharged, "fixture/TS-NARROW", "-", fmt.Sprintf("positive fixture: flagged %v (expected exactly bad)", hits), false)
	if !(len(hits) == 1 && hits["bad"]) {
		o.Verdict, o.VerdictS = Undecided, "undecided"
	}
}

// ---------- TS-FLOOR

// A count of seconds (or of any sub-unit) since the epoch is negative before 1970. Go's integer division
// truncates toward zero, so "seconds / 86400" gives day 0 for every instant of 31 Dec 1969 but midnight:
// the specification's "number of days from the epoch" is the floor. A quotient of a value that comes from a
// time.Time (Unix, UnixMilli, ..., or a Duration) therefore has to be corrected downward when the remainder
// is negative, before it goes on the wire.

// timeDerived: v comes, through conversions and additions of constants, from a method of time.Time or
// time.Duration that returns an integer (a signed count that is negative before the epoch).
var timeRecvTypes = map[string]bool{"time.Time": true, "time.Duration": true, "*time.Time": true}

func timeDerived(v ssa.Value, d int) bool {
	if d > 6 {
		return false
	}
	switch x := v.(type) {
	case *ssa.Convert:
		return timeDerived(x.X, d+1)
	case *ssa.ChangeType:
		return timeDerived(x.X, d+1)
	case *ssa.BinOp:
		if x.Op == token.ADD || x.Op == token.SUB {
			return timeDerived(x.X, d+1) || timeDerived(x.Y, d+1)
		}
	case *ssa.Phi:
		for _, e := range x.Edges {
			if timeDerived(e, d+1) {
				return true
			}
		}
	case *ssa.Call:
		g := x.Call.StaticCallee()
		if g == nil || g.Signature.Recv() == nil {
			return false
		}
		if !timeRecvTypes[typeKey(g.Signature.Recv().Type())] {
			return false
		}
		if g.Signature.Results().Len() != 1 {
			return false
		}
		b, ok := g.Signature.Results().At(0).Type().Underlying().(*types.Basic)
		return ok && b.Info()&types.IsInteger != 0 && b.Info()&types.IsUnsigned == 0
	}
	return false
}

// truncatingQuotients: signed divisions by a constant > 1 of a time-derived value whose result is not
// floor-corrected (merged, in a phi, with itself minus one under a test of the remainder or of the sign).
func truncatingQuotients(fns []*ssa.Function) []*ssa.BinOp {
	var out []*ssa.BinOp
	for _, fn := range fns {
		for _, b := range fn.Blocks {
			for _, in := range b.Instrs {
				q, ok := in.(*ssa.BinOp)
				if !ok || q.Op != token.QUO {
					continue
				}
				bt, ok := q.Type().Underlying().(*types.Basic)
				if !ok || bt.Info()&types.IsInteger == 0 || bt.Info()&types.IsUnsigned != 0 {
					continue
				}
				k, isK := constInt(q.Y)
				if !isK || k <= 1 || !timeDerived(q.X, 0) {
					continue
				}
				if !floorCorrected(q) {
					out = append(out, q)
				}
			}
		}
	}
	return out
}

func floorCorrected(q *ssa.BinOp) bool {
	// q-1 (or q + -1), directly or after a conversion of q
	var carriers []ssa.Value
	carriers = append(carriers, q)
	for i := 0; i < len(carriers) && i < 8; i++ {
		for _, r := range referrersOf(carriers[i]) {
			switch x := r.(type) {
			case *ssa.Convert:
				carriers = append(carriers, x)
			case *ssa.ChangeType:
				carriers = append(carriers, x)
			}
		}
	}
	isCarrier := func(v ssa.Value) bool {
		for _, c := range carriers {
			if c == v {
				return true
			}
		}
		return false
	}
	for _, cv := range carriers {
		for _, r := range referrersOf(cv) {
			dec, ok := r.(*ssa.BinOp)
			if !ok {
				continue
			}
			one := false
			if k, isK := constInt(dec.Y); isK && dec.X == cv && (dec.Op == token.SUB && k == 1 || dec.Op == token.ADD && k == -1) {
				one = true
			}
			if !one {
				continue
			}
			// merged with the uncorrected quotient in a phi whose diamond tests the remainder or the sign
			for _, r2 := range referrersOf(dec) {
				phi, ok := r2.(*ssa.Phi)
				if !ok {
					continue
				}
				hasQ := false
				for _, e := range phi.Edges {
					if isCarrier(e) {
						hasQ = true
					}
				}
				if !hasQ {
					continue
				}
				// the branch that selects: the immediate dominator's If
				idom := phi.Block().Idom()
				if idom == nil {
					continue
				}
				iff, ok := idom.Instrs[len(idom.Instrs)-1].(*ssa.If)
				if !ok {
					continue
				}
				if condMentionsRemOrSign(iff.Cond, q, 0) {
					return true
				}
				// a && chain: the test of the sign may sit one block further up
				if up := idom.Idom(); up != nil {
					if iff2, ok := up.Instrs[len(up.Instrs)-1].(*ssa.If); ok && condMentionsRemOrSign(iff2.Cond, q, 0) {
						return true
					}
				}
			}
		}
	}
	return false
}

func condMentionsRemOrSign(c ssa.Value, q *ssa.BinOp, d int) bool {
	if d > 5 {
		return false
	}
	switch x := c.(type) {
	case *ssa.UnOp:
		return condMentionsRemOrSign(x.X, q, d+1)
	case *ssa.Convert:
		return condMentionsRemOrSign(x.X, q, d+1)
	case *ssa.BinOp:
		if x.Op == token.REM && sameValue(stripConv(x.X), stripConv(q.X)) {
			return true
		}
		switch x.Op {
		case token.LSS, token.LEQ, token.GTR, token.GEQ:
			if k, isK := constInt(x.Y); isK && k == 0 && (sameValue(stripConv(x.X), stripConv(q.X)) || condMentionsRemOrSign(x.X, q, d+1)) {
				return true
			}
			if k, isK := constInt(x.X); isK && k == 0 && (sameValue(stripConv(x.Y), stripConv(q.X)) || condMentionsRemOrSign(x.Y, q, d+1)) {
				return true
			}
		}
		return condMentionsRemOrSign(x.X, q, d+1) || condMentionsRemOrSign(x.Y, q, d+1)
	}
	return false
}

func ruleTSFloor(c *Ctx) {
	c.Rule("TS-FLOOR", "a count derived from a time (seconds since the epoch, a duration) is turned into a coarser unit by floor division: a quotient taken with Go's truncating / is corrected downward when the remainder is negative, so instants before 1970 land in the unit that contains them", 0)
	P := c.P
	var fns []*ssa.Function
	for _, fn := range P.ModuleFuncs() {
		if isTimePkgFunc(P)(fn) {
			fns = append(fns, fn)
		}
	}
	n := 0
	for _, q := range truncatingQuotients(fns) {
		n++
		c.Bad(fmt.Sprintf("%s/truncating-quotient#%d", fnKey(q.Parent()), n), P.pos(q.Pos()), fmt.Sprintf("%s divides a count that is negative before the epoch and keeps Go's quotient, which truncates toward zero: an instant before 1970 that is not a whole multiple of the unit is put into the following unit (31 Dec 1969 12:00 becomes day 0)", strings.TrimSpace(q.String())))
	}
	if n == 0 {
		c.OK("time/no-truncating-quotient", "-", "every division of a time-derived signed count by a unit constant is floor-corrected (or there is none)")
	}
	// positive fixture (a stand-in for time.Time, since fixtures have no imports)
	fx := buildFixture(`package fx
type Time struct{ s int64 }
func (t Time) Unix() int64 { return t.s }
func bad(t Time) int32 { return int32(t.Unix() / 86400) }
func good(t Time) int32 {
	s := t.Unix()
	d := s / 86400
	if s%86400 < 0 {
		d--
	}
	return int32(d)
}
func alsoGood(t Time) int32 {
	s := t.Unix()
	d := int32(s / 86400)
	if s < 0 && s%86400 != 0 {
		d -= 1
	}
	return d
}
`)
	if fx == nil {
		c.Unk("fixture/TS-FLOOR", "-", "fixture package did not build")
		return
	}
	var ffns []*ssa.Function
	for _, m := range fx.Members {
		if f, ok := m.(*ssa.Function); ok {
			ffns = append(ffns, f)
		}
	}
	timeRecvTypes["fx.Time"] = true
	hits := map[string]bool{}
	for _, q := range truncatingQuotients(ffns) {
		hits[q.Parent().Name()] = true
	}
	delete(timeRecvTypes, "fx.Time")
	o := c.ob(Discharged, "fixture/TS-FLOOR", "-", fmt.Sprintf("positive fixture: flagged %v (expected exactly bad)", hits), false)
	if !(len(hits) == 1 && hits["bad"]) {
		o.Verdict, o.VerdictS = Undecided, "undecided"
	}
}
