package main

import (
	"fmt"
	"go/types"
	"strings"

	"golang.org/x/tools/go/ssa"
)

// CP-DRAIN: a decompressor that pulls its output from a streaming reader (compress/flate) gets *all* of it,
// and gets it without inventing end-of-stream conditions: the plaintext is what a standard drain-to-EOF
// returns — (*bytes.Buffer).ReadFrom, io.ReadAll, io.Copy/CopyBuffer/CopyN-free, (io.WriterTo).WriteTo —
// with the flate reader as the source. A hand-written loop over Read / io.ReadFull / io.ReadAtLeast has to
// get right what those get right (a read that fills the buffer exactly, io.EOF together with data,
// io.ErrUnexpectedEOF from ReadFull meaning "short", not "finished"); it is not judged here: undecided.

var drainCalls = map[string]int{ // qualified name -> index of the source reader among the arguments
	"(*bytes.Buffer).ReadFrom": 1,
	"io.ReadAll":               0,
	"io.Copy":                  1,
	"io.CopyBuffer":            1,
}

var pieceReads = map[string]bool{"io.ReadFull": true, "io.ReadAtLeast": true, "io.CopyN": true}

func ruleCPDrain(c *Ctx, s *readFileShape) {
	c.Rule("CP-DRAIN", "a streaming decompressor's output is obtained by a standard drain to end-of-stream, not by a hand-written read loop", 1)
	P := c.P
	if !c.Anchor(s.compIface != nil, "compression interface") {
		return
	}
	isReader := func(t types.Type) bool {
		it, ok := t.Underlying().(*types.Interface)
		if !ok {
			return false
		}
		for i := 0; i < it.NumMethods(); i++ {
			if it.Method(i).Name() == "Read" {
				return true
			}
		}
		return false
	}
	for _, impl := range implementations(P, s.compIface) {
		fn := P.Method(impl, "decompress")
		if fn == nil {
			continue
		}
		var fns []*ssa.Function
		seenFn := map[*ssa.Function]bool{}
		var gather func(f *ssa.Function, d int)
		gather = func(f *ssa.Function, d int) {
			if seenFn[f] || d > 2 {
				return
			}
			seenFn[f] = true
			fns = append(fns, f)
			for _, cs := range callsIn(f) {
				if cs.Static != nil && P.isModuleFunc(cs.Static) && cs.Static.Blocks != nil {
					gather(cs.Static, d+1)
				}
			}
		}
		gather(fn, 0)
		streaming := false
		var drains, pieces []string
		var pos string
		for _, f := range fns {
			for _, cs := range callsIn(f) {
				if cs.Static != nil && strings.HasPrefix(qualName(cs.Static), "compress/flate.") {
					streaming = true
				}
				if cs.Static != nil {
					q := qualName(cs.Static)
					if i, ok := drainCalls[q]; ok && i < len(cs.Common.Args) && isReader(cs.Common.Args[i].Type()) {
						drains = append(drains, q)
						pos = P.pos(cs.Instr.Pos())
					}
					if pieceReads[q] {
						pieces = append(pieces, q+" at "+P.pos(cs.Instr.Pos()))
					}
				}
				if cs.Iface != nil && cs.Iface.Name() == "Read" && isReader(cs.Common.Value.Type()) {
					pieces = append(pieces, "Read at "+P.pos(cs.Instr.Pos()))
				}
			}
		}
		if !streaming {
			continue
		}
		key := fnKey(fn) + "/drain"
		switch {
		case len(pieces) > 0:
			c.Unk(key, P.pos(fn.Pos()), fmt.Sprintf("the decompressed bytes are collected by hand (%s): whether every stream length is handled — one that fills the buffer exactly, an empty one, io.EOF arriving with or after the last bytes — is not decided", strings.Join(pieces, ", ")))
		case len(drains) == 1:
			c.OK(key, pos, "the plaintext is everything "+drains[0]+" reads from the decompressor up to io.EOF")
		default:
			c.Unk(key, P.pos(fn.Pos()), fmt.Sprintf("no single standard drain of the decompressor found (%d)", len(drains)))
		}
	}
}
