package main

// The snappy codec's checksum handling, folded (E-CP): compress and decompress of the implementation that
// calls snappy.Decode are folded with the receiver's fields and the argument unknown. What is read off the
// outcomes is what CRC-BE and OD-CRC state, wherever the steps are written (helpers are folded through).

import (
	"fmt"
	"go/token"
	"strings"

	"golang.org/x/tools/go/ssa"
)

type crcFoldOut struct {
	calls   []cpCall
	atoms   []cpAtom
	bufs    map[string]cpBufInfo
	decided map[string]bool
	results []cpVal
	panics  bool
}

func crcFold(P *Program, fn *ssa.Function) ([]crcFoldOut, string) {
	if fn == nil || fn.Blocks == nil || len(fn.Params) != 2 {
		return nil, "not a method of one argument"
	}
	e := &cpEngine{P: P, MaxOut: 200, MaxSteps: 20000, MaxForks: 24, MaxDepth: 6, visited: map[*ssa.Function]bool{}, trackAtoms: true, foldAll: true}
	e.globals = cpInitGlobals(P)
	e.pending = [][]bool{nil}
	var outs []crcFoldOut
	for len(e.pending) > 0 {
		d := e.pending[len(e.pending)-1]
		e.pending = e.pending[:len(e.pending)-1]
		e.decisions, e.taken, e.steps, e.calls, e.uid, e.decided = d, nil, 0, nil, 0, map[string]bool{}
		e.bytes, e.constraints, e.onceDone, e.varintBufs = nil, nil, nil, nil
		e.atoms, e.atomInfo, e.bufInfo = nil, nil, nil
		var recv cpVal = cpUnk{ID: "recv"}
		if pt, ok := fn.Params[0].Type().Underlying().(interface{ Elem() interface{} }); ok {
			_ = pt
		}
		if p := derefType(fn.Params[0].Type()); p != fn.Params[0].Type() {
			recv = cpPtrTo(cpStructUnknownExcept(p, nil), p)
		}
		var res []cpVal
		why := ""
		func() {
			defer func() {
				if x := recover(); x != nil {
					if a, ok := x.(cpAbort); ok {
						why = a.why
						return
					}
					panic(x)
				}
			}()
			res = e.call(fn, []cpVal{recv, cpUnk{ID: "arg:in"}}, 0)
		}()
		o := crcFoldOut{calls: e.calls, atoms: e.atoms, bufs: e.bufInfo, decided: e.decided, results: res}
		switch {
		case why == "panic-instr":
			o.panics = true
		case why != "":
			return nil, why
		}
		outs = append(outs, o)
		if len(outs) > 200 {
			return nil, "too many outcomes"
		}
	}
	return outs, ""
}

func (o *crcFoldOut) find(callee string) *cpCall {
	for i := range o.calls {
		if o.calls[i].Callee == callee {
			return &o.calls[i]
		}
	}
	return nil
}

func isLinOf(v cpVal, id string, add int64) bool {
	switch x := v.(type) {
	case cpLin:
		return x.ID == id && x.Mul == 1 && x.Add == add
	case cpUnk:
		return x.ID == id && add == 0
	}
	return false
}

// crcDecompressByFold: the problems with the snappy decompressor (nil, true when the fold went through).
func crcDecompressByFold(P *Program, dec *ssa.Function) ([]string, bool) {
	outs, why := crcFold(P, dec)
	if why != "" {
		return nil, false
	}
	var problems []string
	nOK := 0
	for i := range outs {
		o := &outs[i]
		if o.panics || len(o.results) != 2 {
			continue
		}
		D := o.find("github.com/golang/snappy.Decode")
		U := o.find("(encoding/binary.bigEndian).Uint32")
		K := o.find("hash/crc32.ChecksumIEEE")
		_, errNil := o.results[1].(cpNil)
		// the comparison of the two checksums, if the path made it
		cmpSeen, cmpEq := false, false
		if U != nil && K != nil {
			for _, a := range o.atoms {
				if !a.Known || (a.Op != token.EQL && a.Op != token.NEQ) {
					continue
				}
				x, y := rfIdent(a.X), rfIdent(a.Y)
				u, k := rfIdent(U.Result), rfIdent(K.Result)
				if u != "" && k != "" && (x == u && y == k || x == k && y == u) {
					cmpSeen = true
					cmpEq = a.Op == token.EQL && a.Truth || a.Op == token.NEQ && !a.Truth
				}
			}
		}
		if !errNil {
			continue
		}
		nOK++
		if D == nil || U == nil || K == nil {
			problems = append(problems, fmt.Sprintf("a block is accepted on a path without snappy.Decode (%v), BigEndian.Uint32 (%v) or crc32.ChecksumIEEE (%v)", D != nil, U != nil, K != nil))
			continue
		}
		if bi, ok := o.bufs[rfIdent(D.Args[len(D.Args)-1])]; !ok || bi.Of != "arg:in" || bi.Low != nil && !isZeroInt(bi.Low) || !isLinOf(bi.Len, "len(arg:in)", -4) {
			problems = append(problems, "snappy.Decode is not applied to compressed[:len(compressed)-4]")
		}
		if bi, ok := o.bufs[rfIdent(U.Args[len(U.Args)-1])]; !ok || bi.Of != "arg:in" || bi.Len != nil || !isLinOf(bi.Low, "len(arg:in)", -4) {
			problems = append(problems, "the expected checksum is not BigEndian.Uint32(compressed[len(compressed)-4:])")
		}
		if rfIdent(K.Args[0]) == "" || rfIdent(K.Args[0]) != rfResult(D, 0) {
			problems = append(problems, "crc32.ChecksumIEEE is not computed over the decoded bytes")
		}
		if !cmpSeen || !cmpEq {
			problems = append(problems, "a block is accepted on a path where the checksum of the decoded bytes was not found equal to the stored one")
		}
		if st := o.decided["cmp:"+rfResult(D, 1)+"==nil"]; !st {
			problems = append(problems, "a block is accepted on a path where snappy.Decode's error was not found nil")
		}
		if rfIdent(o.results[0]) == "" || rfIdent(o.results[0]) != rfResult(D, 0) {
			problems = append(problems, "the bytes returned are not the decoded bytes that were checksummed")
		}
	}
	if nOK == 0 {
		problems = append(problems, "no path of the snappy decompressor accepts a block")
	}
	return dedup(problems), true
}

func isZeroInt(v cpVal) bool {
	k, ok := v.(cpInt)
	return ok && k.V == 0
}

// crcCompressByFold: likewise for the compressor.
func crcCompressByFold(P *Program, enc *ssa.Function) ([]string, bool) {
	outs, why := crcFold(P, enc)
	if why != "" {
		return nil, false
	}
	var problems []string
	nOK := 0
	for i := range outs {
		o := &outs[i]
		if o.panics || len(o.results) != 2 {
			continue
		}
		if _, errNil := o.results[1].(cpNil); !errNil {
			continue
		}
		nOK++
		E := o.find("github.com/golang/snappy.Encode")
		K := o.find("hash/crc32.ChecksumIEEE")
		A := o.find("(encoding/binary.bigEndian).AppendUint32")
		if E == nil || K == nil || A == nil {
			problems = append(problems, "snappy compress succeeds on a path without one of snappy.Encode, crc32.ChecksumIEEE, BigEndian.AppendUint32")
			continue
		}
		if rfIdent(E.Args[len(E.Args)-1]) != "arg:in" {
			problems = append(problems, "snappy.Encode is not applied to the uncompressed parameter")
		}
		if rfIdent(K.Args[0]) != "arg:in" {
			problems = append(problems, "the checksum is not computed over the uncompressed parameter")
		}
		n := len(A.Args)
		if n < 2 || rfIdent(A.Args[n-2]) == "" || rfIdent(A.Args[n-2]) != rfIdent(E.Result) {
			problems = append(problems, "the checksum is not appended to the snappy-encoded bytes")
		}
		if n < 2 || rfIdent(A.Args[n-1]) == "" || rfIdent(A.Args[n-1]) != rfIdent(K.Result) {
			problems = append(problems, "the value appended is not the checksum")
		}
		if rfIdent(o.results[0]) == "" || rfIdent(o.results[0]) != rfIdent(A.Result) {
			problems = append(problems, "the bytes returned are not the encoded bytes with the checksum appended")
		}
	}
	if nOK == 0 {
		problems = append(problems, "no path of the snappy compressor succeeds")
	}
	return dedup(problems), true
}

var _ = strings.Join
