package main

// Obligations, verdicts, known findings, evidence and violation replay files.

import (
	"encoding/json"
	"fmt"
	"os"
	"path/filepath"
	"sort"
	"strings"
)

type Verdict int

const (
	Discharged Verdict = iota
	Violated
	Undecided
)

func (v Verdict) String() string {
	switch v {
	case Discharged:
		return "discharged"
	case Violated:
		return "violated"
	}
	return "undecided"
}

type Obligation struct {
	Rule       string  `json:"rule"`
	Construct  string  `json:"construct"`
	Verdict    Verdict `json:"-"`
	VerdictS   string  `json:"verdict"`
	Pos        string  `json:"pos,omitempty"`
	Witness    string  `json:"witness"`
	Nontrivial bool    `json:"nontrivial"`
	Info       bool    `json:"informational,omitempty"` // listed, never counted
}

// RuleInfo documents a rule in the evidence.
type RuleInfo struct {
	ID     string `json:"id"`
	Clause string `json:"clause"` // what clause of the property it decides
	Min    int    `json:"min_instances"`
	Found  int    `json:"found_instances"`
}

type KnownFinding struct {
	Property  string `json:"property"`
	Rule      string `json:"rule"`
	Construct string `json:"construct"`
	Status    string `json:"status"` // "known" | "fixed"
	Commit    string `json:"commit,omitempty"`
	What      string `json:"what"`
}

type Ctx struct {
	P        *Program
	Property string
	Tier     string
	Obs      []*Obligation
	Rules    []*RuleInfo
	ruleIdx  map[string]*RuleInfo
	cur      *RuleInfo
	Notes    []string // exclusions and assumptions stated in evidence
	Assume   []string
	Extra    map[string]any // tables and languages extracted on this run, reported in the evidence
}

func newCtx(P *Program, prop, tier string) *Ctx {
	return &Ctx{P: P, Property: prop, Tier: tier, ruleIdx: map[string]*RuleInfo{}}
}

// Rule starts a rule; subsequent Ob calls count against it.
func (c *Ctx) Rule(id, clause string, min int) {
	if r, ok := c.ruleIdx[id]; ok {
		c.cur = r
		if min > r.Min {
			r.Min = min
		}
		return
	}
	r := &RuleInfo{ID: id, Clause: clause, Min: min}
	c.ruleIdx[id] = r
	c.Rules = append(c.Rules, r)
	c.cur = r
}

func (c *Ctx) ob(v Verdict, construct, pos, witness string, nontrivial bool) *Obligation {
	if c.cur == nil {
		panic("Ob outside Rule")
	}
	// One obligation per (rule, construct): a second report on the same
	// construct keeps the worst verdict.
	for _, o := range c.Obs {
		if o.Rule == c.cur.ID && o.Construct == construct {
			if v > o.Verdict || (v == o.Verdict && v != Discharged) {
				if v > o.Verdict {
					o.Verdict, o.VerdictS, o.Pos, o.Witness = v, v.String(), pos, witness
				}
			}
			return o
		}
	}
	o := &Obligation{Rule: c.cur.ID, Construct: construct, Verdict: v, VerdictS: v.String(), Pos: pos, Witness: witness, Nontrivial: nontrivial}
	c.Obs = append(c.Obs, o)
	c.cur.Found++
	return o
}

func (c *Ctx) OK(construct, pos, witness string) { c.ob(Discharged, construct, pos, witness, true) }
func (c *Ctx) OKTrivial(construct, pos, witness string) {
	c.ob(Discharged, construct, pos, witness, false)
}
func (c *Ctx) Bad(construct, pos, witness string) { c.ob(Violated, construct, pos, witness, true) }
func (c *Ctx) Unk(construct, pos, witness string) { c.ob(Undecided, construct, pos, witness, true) }

// Check is a convenience: discharged if ok, violated otherwise.
func (c *Ctx) Check(ok bool, construct, pos, good, bad string) {
	if ok {
		c.OK(construct, pos, good)
	} else {
		c.Bad(construct, pos, bad)
	}
}

// Anchor reports a missing anchor as an undecided obligation of the current
// rule and returns false.
func (c *Ctx) Anchor(ok bool, what string) bool {
	if !ok {
		c.Unk("anchor/"+what, "-", "anchor could not be resolved on the current tree: "+what)
	}
	return ok
}

// Table records an extracted table in the evidence.
func (c *Ctx) Table(name string, v any) {
	if c.Extra == nil {
		c.Extra = map[string]any{}
	}
	c.Extra[name] = v
}

func (c *Ctx) Note(format string, a ...any) { c.Notes = append(c.Notes, fmt.Sprintf(format, a...)) }

func loadKnown(verif string) ([]KnownFinding, error) {
	b, err := os.ReadFile(filepath.Join(verif, "known_findings.json"))
	if err != nil {
		if os.IsNotExist(err) {
			return nil, nil
		}
		return nil, err
	}
	var kf struct {
		Findings []KnownFinding `json:"findings"`
	}
	if err := json.Unmarshal(b, &kf); err != nil {
		return nil, fmt.Errorf("known_findings.json: %w", err)
	}
	return kf.Findings, nil
}

type evidence struct {
	PropertyID  string         `json:"property_id"`
	Tier        string         `json:"tier"`
	Seed        int            `json:"seed"`
	Level       string         `json:"level"`
	Coverage    map[string]any `json:"coverage"`
	Assumptions []string       `json:"assumptions"`
	WallS       float64        `json:"wall_s"`
	Violations  int            `json:"violations"`
}

// finish prints the per-rule summary, writes evidence and replay files and
// returns the process exit code.
func (c *Ctx) finish(verif, out string, seed int, wall float64, explanation string, extra map[string]any) int {
	known, err := loadKnown(verif)
	if err != nil {
		fmt.Fprintf(os.Stderr, "cannot read known findings: %v\n", err)
		return 2
	}
	// Rule vacuity.
	for _, r := range c.Rules {
		if r.Found < r.Min {
			c.cur = r
			c.Unk("rule-instances", "-", fmt.Sprintf("rule %s found %d instances, fewer than the %d confirmed by hand on the pinned tree: the rule has gone (partly) vacuous", r.ID, r.Found, r.Min))
		}
	}
	sort.SliceStable(c.Obs, func(i, j int) bool {
		if c.Obs[i].Rule != c.Obs[j].Rule {
			return c.Obs[i].Rule < c.Obs[j].Rule
		}
		return c.Obs[i].Construct < c.Obs[j].Construct
	})
	violDir := filepath.Join(out, "evidence", c.Property+".violations")
	os.RemoveAll(violDir)
	nViol, nKnown, nDis, nNontriv := 0, 0, 0, 0
	var knownPrinted []string
	var violList []map[string]any
	usedKnown := map[int]bool{}
	distinct := map[string]bool{}
	for _, o := range c.Obs {
		if o.Info {
			continue
		}
		if o.Verdict == Discharged {
			nDis++
			if o.Nontrivial && !distinct[o.Rule+"|"+o.Construct] {
				distinct[o.Rule+"|"+o.Construct] = true
				nNontriv++
			}
			continue
		}
		// known finding?
		matched := false
		for i, k := range known {
			if k.Status == "known" && k.Property == c.Property && k.Rule == o.Rule && k.Construct == o.Construct && o.Verdict == Violated {
				matched = true
				usedKnown[i] = true
				line := fmt.Sprintf("KNOWN-FINDING: property=%s %s [%s %s]", c.Property, k.What, o.Rule, o.Construct)
				fmt.Println(line)
				knownPrinted = append(knownPrinted, line)
				nKnown++
				break
			}
		}
		if matched {
			continue
		}
		nViol++
		os.MkdirAll(violDir, 0o755)
		path := filepath.Join(violDir, fmt.Sprintf("%d.json", nViol))
		rec := map[string]any{"property": c.Property, "rule": o.Rule, "construct": o.Construct, "verdict": o.VerdictS, "pos": o.Pos, "reason": o.Witness,
			"replay": fmt.Sprintf("./check %s %s -explain %s", c.Property, c.Tier, path)}
		b, _ := json.MarshalIndent(rec, "", " ")
		os.WriteFile(path, b, 0o644)
		violList = append(violList, rec)
		fmt.Printf("%s %s %s at %s: %s\n", strings.ToUpper(o.VerdictS), o.Rule, o.Construct, o.Pos, o.Witness)
		fmt.Printf("VIOLATION property=%s replay=%s\n", c.Property, path)
	}
	var stale []string
	for i, k := range known {
		if k.Status == "known" && k.Property == c.Property && !usedKnown[i] {
			stale = append(stale, k.Rule+" "+k.Construct)
		}
	}
	// Per-rule summary lines.
	for _, r := range c.Rules {
		d, v := 0, 0
		for _, o := range c.Obs {
			if o.Rule == r.ID && !o.Info {
				if o.Verdict == Discharged {
					d++
				} else {
					v++
				}
			}
		}
		fmt.Printf("rule %-12s instances=%d (min %d) discharged=%d not-discharged=%d  -- %s\n", r.ID, r.Found, r.Min, d, v, r.Clause)
	}
	// Samples: up to 14 obligations, preferring non-trivial, spread over rules.
	var samples []any
	perRule := map[string]int{}
	for _, o := range c.Obs {
		if len(samples) >= 16 {
			break
		}
		if perRule[o.Rule] >= 2 || !o.Nontrivial {
			continue
		}
		perRule[o.Rule]++
		samples = append(samples, o)
	}
	if len(samples) == 0 {
		for _, o := range c.Obs {
			if len(samples) >= 4 {
				break
			}
			samples = append(samples, o)
		}
	}
	total := 0
	for _, o := range c.Obs {
		if !o.Info {
			total++
		}
	}
	cov := map[string]any{
		"explanation":         explanation,
		"obligations":         total,
		"discharged":          nDis,
		"evaluations":         total,
		"distinct_nontrivial": nNontriv,
		"rule":                "one obligation per (rule, construct key) found by the static rules on /repo's current source; non-trivial = its discharge needed a guard, dataflow, table or language-inclusion argument rather than the mere presence of an anchor; distinct = distinct (rule, construct) pairs",
		"samples":             samples,
		"rules":               c.Rules,
		"known_findings":      knownPrinted,
		"stale_known":         stale,
		"violations_listed":   violList,
		"exclusions":          c.Notes,
		"analysed": map[string]any{
			"packages":     len(c.P.Pkgs),
			"functions":    c.P.NFuncs,
			"blocks":       c.P.NBlocks,
			"instructions": c.P.NInstrs,
			"call_sites":   c.P.NCalls,
		},
		"checker_cmd":  fmt.Sprintf("./check %s %s", c.Property, c.Tier),
		"trusted_base": []string{"go/types and go/ssa (golang.org/x/tools v0.50.0) model of the program", "documented contracts of the Go standard library, github.com/golang/snappy and github.com/go-json-experiment/json", "linux/amd64 sizes and pointer maps from types.SizesFor(gc, amd64)"},
	}
	for k, v := range extra {
		cov[k] = v
	}
	for k, v := range c.Extra {
		cov[k] = v
	}
	ev := evidence{PropertyID: c.Property, Tier: c.Tier, Seed: seed, Level: "other", Coverage: cov,
		Assumptions: append([]string{"analysed configuration: linux/amd64, no build tags, non-test files of the three module packages"}, c.Assume...),
		WallS:       wall, Violations: nViol}
	b, _ := json.MarshalIndent(ev, "", " ")
	os.MkdirAll(filepath.Join(out, "evidence"), 0o755)
	if err := os.WriteFile(filepath.Join(out, "evidence", c.Property+".json"), b, 0o644); err != nil {
		fmt.Fprintf(os.Stderr, "cannot write evidence: %v\n", err)
		return 2
	}
	fmt.Printf("property %s tier %s: %d obligations, %d discharged, %d known findings, %d violations (%.1fs)\n", c.Property, c.Tier, total, nDis, nKnown, nViol, wall)
	if nViol > 0 {
		return 1
	}
	return 0
}
