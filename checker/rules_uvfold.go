package main

// UV-FOLD (C17): the base-128 decoder decided by folding (E-CP) it on read
// buffers of 1 to 11 bytes whose bytes are unknown but individually named,
// every number computed from them being an exact table over the 256 values of
// each byte. For every length the outcomes must be exactly those of the
// specification's unsigned LEB128 with the 64-bit overflow rule:
//
//   - it succeeds after k bytes (k <= 10) exactly when bytes 0..k-2 have the
//     continuation bit, byte k-1 has not, and — for k = 10 — byte 9 is 0 or 1;
//     the value is the sum over i of (byte i & 0x7f) << 7i and k bytes are consumed;
//   - it fails for every other buffer: all bytes with the continuation bit
//     (truncated), a tenth byte above 1, an eleventh byte.
//
// Nothing is executed and no input is enumerated: the fold forks on the sign
// test of each byte and the tables are compared with tables.

import (
	"fmt"
	"go/types"
	"strings"

	"golang.org/x/tools/go/ssa"
)

// uvFoldVerdicts: per buffer length, "" (fine), a problem text, or "?..." when the fold failed.
var uvFoldLast = map[*Program]map[int]string{}

func ruleUVFold(c *Ctx) {
	uvFoldLast[c.P] = map[int]string{}
	c.Rule("UV-FOLD", "the varint decoder, folded on buffers of 1 to 11 named unknown bytes, accepts exactly the unsigned LEB128 encodings of 64-bit values (ten bytes at most, the tenth 0 or 1), yields the sum of (byte & 0x7f) << 7i, consumes exactly the bytes of the varint, and fails on everything else", 11)
	P := c.P
	rbN := P.NamedType(P.Avro, "ReadBuf")
	if !c.Anchor(rbN != nil, "avro.ReadBuf") {
		return
	}
	vfn := P.Method(rbN, "Varint")
	if !c.Anchor(vfn != nil, "(*ReadBuf).Varint") {
		return
	}
	// the decoding loop: Varint's module callee with a loop that returns (uint64, error), or Varint itself
	dec := vfn
	for _, cs := range callsIn(vfn) {
		if cs.Static != nil && P.isModuleFunc(cs.Static) && len(loopsOf(cs.Static)) > 0 && cs.Static.Signature.Results().Len() == 2 {
			dec = cs.Static
		}
	}
	if dec == vfn {
		c.Unk(fnKey(vfn)+"/decoder", P.pos(vfn.Pos()), "the unsigned decoding loop is not a separate function: the zig-zag step on top of it is outside what the byte tables can express")
		return
	}
	R := resourceRoles(P)
	st, _ := rbN.Underlying().(*types.Struct)
	var bufField, curField string
	for i := 0; st != nil && i < st.NumFields(); i++ {
		f := st.Field(i)
		if sl, ok := f.Type().Underlying().(*types.Slice); ok && isBasicKind(sl.Elem(), types.Uint8) {
			bufField = f.Name()
		}
		if isBasicKind(f.Type(), types.Int) {
			curField = f.Name()
		}
	}
	if !c.Anchor(bufField != "" && curField != "", "the read buffer's byte slice and cursor") {
		return
	}
	_ = R
	cpMaxOutcomes = 64
	defer func() { cpMaxOutcomes = 96 }()
	for n := 1; n <= 11; n++ {
		key := fmt.Sprintf("%s/buffer-of-%d", fnKey(dec), n)
		pos := P.pos(dec.Pos())
		mk := func() (cpPtr, []*cpCell) {
			cells := make([]*cpCell, n)
			for k := range cells {
				cells[k] = &cpCell{V: cpByteIdent(fmt.Sprintf("in[%d]", k), int64(k))}
			}
			var sliceT types.Type
			for i := 0; i < st.NumFields(); i++ {
				if st.Field(i).Name() == bufField {
					sliceT = st.Field(i).Type()
				}
			}
			rd := cpStructOf(types.Type(rbN), map[string]cpVal{bufField: cpSlice{T: sliceT, Elems: cells}, curField: cpInt{0}})
			return cpPtrTo(rd, types.Type(rbN)), cells
		}
		e := &cpEngine{P: P, MaxOut: 64, MaxSteps: 40000, MaxForks: cpMaxForks, MaxDepth: 8, visited: map[*ssa.Function]bool{}}
		e.globals = cpInitGlobals(P)
		e.pending = [][]bool{nil}
		var probs []string
		accepted := map[int]bool{} // k -> a success outcome consuming k bytes was seen
		nOut := 0
		failed := ""
		for len(e.pending) > 0 && failed == "" {
			d := e.pending[len(e.pending)-1]
			e.pending = e.pending[:len(e.pending)-1]
			e.decisions, e.taken, e.steps, e.calls, e.uid, e.decided = d, nil, 0, nil, 0, map[string]bool{}
			e.bytes, e.constraints, e.onceDone, e.varintBufs = nil, nil, nil, nil
			rd, _ := mk()
			var res []cpVal
			func() {
				defer func() {
					if x := recover(); x != nil {
						if a, ok := x.(cpAbort); ok {
							failed = a.why
							return
						}
						panic(x)
					}
				}()
				res = e.call(dec, []cpVal{rd}, 0)
			}()
			if failed != "" {
				break
			}
			nOut++
			if nOut > 64 || len(res) != 2 {
				failed = "too many outcomes"
				break
			}
			cur, _ := cpFieldByName(rd.C.V, curField)
			ci, _ := cur.(cpInt)
			sets := e.bytes
			set := func(k int) cpByteSet {
				if s, ok := sets[fmt.Sprintf("in[%d]", k)]; ok {
					return s
				}
				return cpAllBytes()
			}
			_, isNil := res[1].(cpNil)
			if !isNil {
				// a failure: it must not be a buffer the specification accepts, i.e. NOT (some k <= min(n,10): bytes
				// 0..k-2 all >= 0x80 possible, byte k-1 < 0x80 possible (and <= 1 when k = 10))
				for k := 1; k <= n && k <= 10; k++ {
					ok := true
					for i := 0; i < k-1; i++ {
						if set(i).and(cpByteRange(0x80, 0xff)).empty() {
							ok = false
						}
					}
					last := cpByteRange(0, 0x7f)
					if k == 10 {
						last = cpByteRange(0, 1)
					}
					if set(k - 1).and(last).empty() {
						ok = false
					}
					// the path is consistent with a valid k-byte varint only if ALL of these intersections are non-empty;
					// since every byte's set on a path is one side of its own sign test, non-empty means "is"
					if ok && pathIsExactly(set, k) {
						probs = append(probs, fmt.Sprintf("a valid %d-byte varint is refused", k))
					}
				}
				continue
			}
			// success: after k = cursor bytes
			k := int(ci.V)
			if k < 1 || k > n || k > 10 {
				probs = append(probs, fmt.Sprintf("success after consuming %d bytes of a %d-byte buffer", k, n))
				continue
			}
			accepted[k] = true
			for i := 0; i < k-1; i++ {
				if set(i) != cpByteRange(0x80, 0xff) {
					probs = append(probs, fmt.Sprintf("a %d-byte varint is accepted with byte %d in %s, not exactly the bytes with the continuation bit", k, i, set(i)))
				}
			}
			wantLast := cpByteRange(0, 0x7f)
			if k == 10 {
				wantLast = cpByteRange(0, 1)
			}
			if set(k-1) != wantLast {
				probs = append(probs, fmt.Sprintf("a %d-byte varint is accepted with its last byte in %s, the specification allows exactly %s", k, set(k-1), wantLast))
			}
			// the value
			aff, isAff := asAff(res[0])
			if !isAff {
				probs = append(probs, fmt.Sprintf("the value of a %d-byte varint is not a sum of per-byte tables (%T)", k, res[0]))
				continue
			}
			if aff.Add != 0 {
				probs = append(probs, "the value has a constant part")
			}
			terms := map[string]cpBF{}
			for _, t := range aff.Terms {
				terms[t.ID] = t
			}
			for i := 0; i < k; i++ {
				t, has := terms[fmt.Sprintf("in[%d]", i)]
				s := set(i)
				for v := 0; v < 256; v++ {
					if !s.has(v) {
						continue
					}
					want := uint64(v&0x7f) << uint(7*i)
					got := uint64(0)
					if has {
						got = uint64(t.F[v])
					}
					if got != want {
						probs = append(probs, fmt.Sprintf("byte %d of a %d-byte varint contributes %#x for %#02x, the specification says %#x", i, k, got, v, want))
						break
					}
				}
			}
			if len(terms) > k {
				probs = append(probs, "the value depends on bytes beyond the varint")
			}
		}
		switch {
		case failed != "":
			uvFoldLast[c.P][n] = "?" + failed
			c.Unk(key, pos, "the fold of the decoder failed ("+failed+")")
		default:
			for k := 1; k <= n && k <= 10; k++ {
				if !accepted[k] {
					probs = append(probs, fmt.Sprintf("no %d-byte varint is accepted from a %d-byte buffer", k, n))
				}
			}
			uvFoldLast[c.P][n] = strings.Join(dedup(probs), "; ")
			c.Check(len(probs) == 0, key, pos, fmt.Sprintf("%d outcomes: success after k bytes exactly for the LEB128 byte sets, value = sum of (byte & 0x7f) << 7i, cursor = k; every other path fails", nOut), strings.Join(dedup(probs), "; "))
		}
	}
}

// pathIsExactly: the path's byte sets say "bytes 0..k-2 have the continuation bit and byte k-1 has not".
func pathIsExactly(set func(int) cpByteSet, k int) bool {
	for i := 0; i < k-1; i++ {
		if !set(i).minus(cpByteRange(0x80, 0xff)).empty() {
			return false
		}
	}
	last := set(k - 1)
	if k == 10 {
		return last.minus(cpByteRange(0, 1)).empty()
	}
	return last.minus(cpByteRange(0, 0x7f)).empty()
}
