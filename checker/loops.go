package main

// Natural loops and counted-loop recognition; value-flow through fields.

import (
	"go/token"

	"golang.org/x/tools/go/ssa"
)

type Loop struct {
	Header  *ssa.BasicBlock
	Latches []*ssa.BasicBlock
	Blocks  map[*ssa.BasicBlock]bool
}

// loopsOf returns the natural loops of fn, one per header.
func loopsOf(fn *ssa.Function) []*Loop {
	byHeader := map[*ssa.BasicBlock]*Loop{}
	var order []*Loop
	for _, b := range fn.Blocks {
		for _, s := range b.Succs {
			if s.Dominates(b) { // back edge b -> s
				l := byHeader[s]
				if l == nil {
					l = &Loop{Header: s, Blocks: map[*ssa.BasicBlock]bool{s: true}}
					byHeader[s] = l
					order = append(order, l)
				}
				l.Latches = append(l.Latches, b)
				// blocks that reach b without passing through s
				st := []*ssa.BasicBlock{b}
				for len(st) > 0 {
					x := st[len(st)-1]
					st = st[:len(st)-1]
					if l.Blocks[x] {
						continue
					}
					l.Blocks[x] = true
					st = append(st, x.Preds...)
				}
			}
		}
	}
	return order
}

func loopWithHeader(fn *ssa.Function, h *ssa.BasicBlock) *Loop {
	for _, l := range loopsOf(fn) {
		if l.Header == h {
			return l
		}
	}
	return nil
}

// innermostLoop returns the smallest loop containing b, or nil.
func innermostLoop(fn *ssa.Function, b *ssa.BasicBlock) *Loop {
	var best *Loop
	for _, l := range loopsOf(fn) {
		if l.Blocks[b] && (best == nil || len(l.Blocks) < len(best.Blocks)) {
			best = l
		}
	}
	return best
}

// Counted describes a loop of the form
//
//	for i := Init; i Op Bound; i += Step
//
// recognised from the header's phi and If.
type Counted struct {
	*Loop
	Phi   *ssa.Phi
	Init  ssa.Value
	Step  int64
	Op    token.Token // continuing condition: Phi Op Bound
	Bound ssa.Value
	Body  *ssa.BasicBlock // successor taken while the condition holds
	Exit  *ssa.BasicBlock
}

func countedLoop(l *Loop) *Counted {
	if c := countedLoopTop(l); c != nil {
		return c
	}
	return countedLoopRotated(l)
}

// countedLoopRotated recognises go/ssa's lowering of `for i := range n`:
//
//	pre:    if 0 < n goto body else exit
//	body:   i = phi [pre: 0, latch: next] ...
//	latch:  next = i + 1; if next < n goto body else exit
//
// The body runs max(n, 0) times with i = 0..n-1.
func countedLoopRotated(l *Loop) *Counted {
	h := l.Header
	for _, in := range h.Instrs {
		phi, ok := in.(*ssa.Phi)
		if !ok {
			break
		}
		c := &Counted{Loop: l, Phi: phi, Body: h}
		okAll := true
		var next *ssa.BinOp
		for i, e := range phi.Edges {
			pred := h.Preds[i]
			if l.Blocks[pred] {
				bo, ok := e.(*ssa.BinOp)
				if !ok || bo.X != ssa.Value(phi) || bo.Op != token.ADD {
					okAll = false
					break
				}
				if k, ok := constInt(bo.Y); !ok || k != 1 {
					okAll = false
					break
				}
				next = bo
				// the latch tests next < bound, true edge back to the header
				iff, ok := pred.Instrs[len(pred.Instrs)-1].(*ssa.If)
				if !ok {
					okAll = false
					break
				}
				cmp, ok := asCmp(iff.Cond, pred.Succs[0] == h)
				if !ok || cmp.X != ssa.Value(bo) || cmp.Op != token.LSS {
					okAll = false
					break
				}
				if c.Bound != nil && c.Bound != cmp.Y {
					okAll = false
					break
				}
				c.Bound = cmp.Y
				if pred.Succs[0] == h {
					c.Exit = pred.Succs[1]
				} else {
					c.Exit = pred.Succs[0]
				}
			} else {
				z, ok := constInt(e)
				if !ok || z != 0 {
					okAll = false
					break
				}
				c.Init = e
				// the entry edge is guarded by 0 < bound
				iff, ok := pred.Instrs[len(pred.Instrs)-1].(*ssa.If)
				if !ok {
					okAll = false
					break
				}
				cmp, ok := asCmp(iff.Cond, pred.Succs[0] == h)
				if !ok || cmp.Op != token.LSS {
					okAll = false
					break
				}
				if z0, ok := constInt(cmp.X); !ok || z0 != 0 {
					okAll = false
					break
				}
				if c.Bound != nil && c.Bound != cmp.Y {
					okAll = false
					break
				}
				c.Bound = cmp.Y
			}
		}
		if okAll && next != nil && c.Init != nil && c.Bound != nil {
			c.Step, c.Op = 1, token.LSS
			return c
		}
	}
	return nil
}

func countedLoopTop(l *Loop) *Counted {
	h := l.Header
	if len(h.Instrs) == 0 {
		return nil
	}
	iff, ok := h.Instrs[len(h.Instrs)-1].(*ssa.If)
	if !ok {
		return nil
	}
	cmp, ok := asCmp(iff.Cond, true)
	if !ok {
		return nil
	}
	var phi *ssa.Phi
	if p, ok := cmp.X.(*ssa.Phi); ok && p.Block() == h {
		phi = p
	} else if p, ok := cmp.Y.(*ssa.Phi); ok && p.Block() == h {
		phi = p
		cmp = Cmp{X: cmp.Y, Y: cmp.X, Op: swapOp(cmp.Op)}
	} else {
		return nil
	}
	c := &Counted{Loop: l, Phi: phi, Op: cmp.Op, Bound: cmp.Y}
	// which successor stays in the loop?
	if l.Blocks[h.Succs[0]] && !l.Blocks[h.Succs[1]] {
		c.Body, c.Exit = h.Succs[0], h.Succs[1]
	} else if l.Blocks[h.Succs[1]] && !l.Blocks[h.Succs[0]] {
		c.Body, c.Exit = h.Succs[1], h.Succs[0]
		c.Op = negateOp(c.Op)
	} else {
		return nil
	}
	nIn, nOut := 0, 0
	for i, e := range phi.Edges {
		pred := h.Preds[i]
		if l.Blocks[pred] && pred != h || h.Dominates(pred) {
			// in-loop edge: must be phi +/- const
			bo, ok := e.(*ssa.BinOp)
			if !ok || bo.X != phi {
				return nil
			}
			k, ok := constInt(bo.Y)
			if !ok {
				return nil
			}
			switch bo.Op {
			case token.ADD:
				c.Step = k
			case token.SUB:
				c.Step = -k
			default:
				return nil
			}
			nIn++
		} else {
			if c.Init != nil && c.Init != e {
				return nil
			}
			c.Init = e
			nOut++
		}
	}
	if nIn == 0 || nOut == 0 {
		return nil
	}
	return c
}

// TripCount returns the value N such that the loop body is entered exactly
// max(N,0) times, for the accepted shapes; nil otherwise.
func (c *Counted) TripCount() ssa.Value {
	if c == nil {
		return nil
	}
	if z, ok := constInt(c.Init); ok && z == 0 && c.Step == 1 && c.Op == token.LSS {
		return c.Bound
	}
	if z, ok := constInt(c.Bound); ok && z == 0 && c.Step == -1 && c.Op == token.GTR {
		return c.Init
	}
	if z, ok := constInt(c.Bound); ok && z == 1 && c.Step == -1 && c.Op == token.GEQ {
		return c.Init
	}
	return nil
}

// oncePerIteration reports whether instruction in executes exactly once on
// every complete iteration of loop l: its block is in l, dominates every
// latch, and is not inside a loop nested in l.
func oncePerIteration(fn *ssa.Function, l *Loop, in ssa.Instruction) bool {
	b := in.Block()
	if !l.Blocks[b] {
		return false
	}
	for _, la := range l.Latches {
		if !b.Dominates(la) {
			return false
		}
	}
	for _, l2 := range loopsOf(fn) {
		if l2.Header != l.Header && l.Blocks[l2.Header] && l2.Blocks[b] {
			return false
		}
	}
	return true
}

// ---------- value flow through fields

// storesToPath returns the stores in fn whose address has the given access path.
func storesToPath(fn *ssa.Function, path string) []*ssa.Store {
	var out []*ssa.Store
	for _, b := range fn.Blocks {
		for _, in := range b.Instrs {
			if st, ok := in.(*ssa.Store); ok && accessPath(st.Addr) == path {
				out = append(out, st)
			}
		}
	}
	return out
}

// reachingStore returns, for a load of an address with a canonical path, the
// unique store that provides its value: the latest store to the same path
// that dominates the load, provided every store to the path that can reach
// the load dominates it. Returns nil if the value may come from elsewhere.
func reachingStore(load *ssa.UnOp) *ssa.Store {
	if load.Op != token.MUL {
		return nil
	}
	path := accessPath(load.X)
	if path == "" {
		return nil
	}
	fn := load.Parent()
	var best *ssa.Store
	for _, st := range storesToPath(fn, path) {
		if dominatesInstr(st, load) {
			if best == nil || dominatesInstr(best, st) {
				best = st
			}
			continue
		}
		// a non-dominating store that can reach the load makes the value ambiguous
		if canReachInstr(st, load) {
			return nil
		}
	}
	return best
}

func canReachInstr(a, b ssa.Instruction) bool {
	if a.Block() == b.Block() && instrIndex(a) < instrIndex(b) {
		return true
	}
	seen := reachableFrom(a.Block(), nil)
	// must leave a's block first
	for _, s := range a.Block().Succs {
		if reachableFrom(s, nil)[b.Block()] {
			return true
		}
	}
	_ = seen
	return false
}

// flowsFrom reports whether v is src, possibly after being stored to and
// re-loaded from a field/local (tracked by reachingStore), re-sliced to full
// extent is NOT followed (a re-slice is a different value).
func flowsFrom(v, src ssa.Value) bool {
	for i := 0; i < 8; i++ {
		if v == src {
			return true
		}
		switch x := v.(type) {
		case *ssa.ChangeType:
			v = x.X
			continue
		case *ssa.UnOp:
			if x.Op == token.MUL {
				st := reachingStore(x)
				if st == nil {
					return false
				}
				v = st.Val
				continue
			}
		}
		return false
	}
	return false
}

// factsOnEdge returns the branch facts that hold when control traverses p->s.
func factsOnEdge(p, s *ssa.BasicBlock) []Fact {
	out := factsAt(p)
	if iff, ok := p.Instrs[len(p.Instrs)-1].(*ssa.If); ok && p.Succs[0] != p.Succs[1] {
		out = append(out, Fact{Cond: iff.Cond, Truth: p.Succs[0] == s, If: iff, Target: s})
	}
	return out
}

func cmpFactsOnEdge(p, s *ssa.BasicBlock) []Cmp {
	var out []Cmp
	for _, f := range factsOnEdge(p, s) {
		if c, ok := asCmp(f.Cond, f.Truth); ok {
			out = append(out, c)
		}
	}
	return out
}
